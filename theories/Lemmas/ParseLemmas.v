(* C01, layer 2 / C13 last sentence: the reference decoder's segment parser (Ref/Decoder.v: parse_qr,
   parse_micro) inverts the model's segment writer (Model/Stream.v: write_segment, Model/Encode.v:
   write_segments) followed by the ISO terminator / padding (Ref/Spec.v: iso_pad, iso_pad_kf), for
   contents of unbounded length; and the parser stops exactly at the end of the last segment. *)
From Coq Require Import String.
From Coq Require Import ZArith List Bool Lia ZifyBool.
From Segno Require Import Base.PyLite Ref.IsoData Ref.Decoder Ref.Spec.
From Segno Require Import Model.Bits Model.Segment Model.Version Model.Stream Model.Encode.
From Segno Require Import Lemmas.PackLemmas Lemmas.PadLemmas.
Import ListNotations.
Open Scope Z_scope.
Ltac Zify.zify_post_hook ::= Z.to_euclidean_division_equations.

(* ------------------------------------------------------------------------------------------ *)
(* 0. small facts about bit lists                                                             *)
(* ------------------------------------------------------------------------------------------ *)
Lemma bits_of_aux_zero k : bits_of_aux k 0 = repeat false k.
Proof. induction k as [|k IH]; cbn [bits_of_aux repeat]; [reflexivity|]. now rewrite Z.testbit_0_l, IH. Qed.
Lemma zeros_bits_of n : repeat false (Z.to_nat n) = bits_of 0 n.
Proof. unfold bits_of. symmetry. apply bits_of_aux_zero. Qed.

Lemma repeat_false_split a b : 0 <= a -> 0 <= b ->
  repeat false (Z.to_nat (a + b)) = bits_of 0 a ++ repeat false (Z.to_nat b).
Proof. intros Ha Hb. rewrite Z2Nat.inj_add by lia. rewrite repeat_app, zeros_bits_of. reflexivity. Qed.

Lemma pow2_pos n : 0 <= n -> 0 < 2 ^ n.
Proof. intros Hn. apply Z.pow_pos_nonneg; lia. Qed.

(* take on a block of zeros followed by anything *)
Lemma take_zeros n k more : 0 <= n <= k ->
  take n (repeat false (Z.to_nat k) ++ more) = Some (0, repeat false (Z.to_nat (k - n)) ++ more).
Proof.
  intros H. replace k with (n + (k - n)) at 1 by lia.
  rewrite repeat_false_split by lia. rewrite <- app_assoc.
  apply take_bits_of; [lia|]. pose proof (pow2_pos n). lia.
Qed.
Lemma take_short n (bs : list bool) : lenZ bs < n -> take n bs = None.
Proof. intros H. unfold take. destruct (lenZ bs <? n) eqn:E; [reflexivity | lia]. Qed.

Lemma bits_of_8_head n : 0 <= n < 128 -> exists t, bits_of n 8 = false :: t.
Proof.
  intros Hn. unfold bits_of. change (Z.to_nat 8) with 8%nat. cbn [bits_of_aux].
  change (Z.of_nat 7) with 7. eexists. f_equal.
  apply Z.testbit_false; [lia|]. change (2 ^ 7) with 128. lia.
Qed.

(* ------------------------------------------------------------------------------------------ *)
(* 1. segments and the byte strings they encode                                               *)
(* ------------------------------------------------------------------------------------------ *)
Definition seg_valid (mode : Z) (data : list Z) : Prop :=
  (mode = 1 /\ Forall (fun d => 48 <= d <= 57) data) \/
  (mode = 2 /\ Forall (fun b => In b ALPHANUMERIC_CHARS) data) \/
  (mode = 4 /\ Forall (fun b => 0 <= b < 256) data) \/
  (mode = 8 /\ Forall (fun b => 0 <= b < 256) data /\ all_pairs kanji_pair data = true) \/
  (mode = 13 /\ Forall (fun b => 0 <= b < 256) data /\ all_pairs hanzi_pair data = true).

(* a segment together with the byte string it encodes *)
Definition seg_of_data (s : segment) (data : list Z) : Prop :=
  pack_mode (s_mode s) data = Ok (s_bits s) /\ s_count s = count_mode (s_mode s) data /\
  seg_valid (s_mode s) data.

Definition dmode_of (m : Z) : option dmode :=
  if m =? 1 then Some DNumeric else if m =? 2 then Some DAlnum else if m =? 4 then Some DByte
  else if m =? 8 then Some DKanji else if m =? 13 then Some DHanzi else None.

Lemma dmode_of_inv mode m : dmode_of mode = Some m ->
  (mode = 1 /\ m = DNumeric) \/ (mode = 2 /\ m = DAlnum) \/ (mode = 4 /\ m = DByte) \/
  (mode = 8 /\ m = DKanji) \/ (mode = 13 /\ m = DHanzi).
Proof.
  unfold dmode_of. intros H.
  destruct (mode =? 1) eqn:E1; [injection H as <-; left; split; [lia | reflexivity]|].
  destruct (mode =? 2) eqn:E2; [injection H as <-; right; left; split; [lia | reflexivity]|].
  destruct (mode =? 4) eqn:E3; [injection H as <-; right; right; left; split; [lia | reflexivity]|].
  destruct (mode =? 8) eqn:E4; [injection H as <-; right; right; right; left; split; [lia | reflexivity]|].
  destruct (mode =? 13) eqn:E5; [injection H as <-; right; right; right; right; split; [lia | reflexivity]|].
  discriminate H.
Qed.
Lemma mode_key_dmode_of mode m : dmode_of mode = Some m -> mode_key m = mode.
Proof. intros H. apply dmode_of_inv in H. destruct H as [[-> ->]|[[-> ->]|[[-> ->]|[[-> ->]|[-> ->]]]]]; reflexivity. Qed.

(* the header decision of write_segment *)
Definition has_eci (eci : bool) (s : segment) : bool :=
  eci && (s_mode s =? MODE_BYTE) && negb (enc_is_default (s_enc s)).
Definition eci_opt (s : segment) : option Z :=
  match eci_number (s_enc s) with Ok n => Some n | Err _ => None end.

Definition expected_dseg (eci : bool) (s : segment) (data : list Z) (eci_no : option Z) : dsegment :=
  {| d_mode := match dmode_of (s_mode s) with Some m => m | None => DByte end;
     d_eci := if has_eci eci s then eci_no else None;
     d_count := s_count s; d_bytes := data |}.

(* count indicator length as a total function (0 where the table has no entry) *)
Definition cci_w (mode r : Z) : Z := match cci_length mode r with Ok w => w | Err _ => 0 end.

(* payload: reader inverts packer, by mode *)
Lemma seg_payload s data : seg_of_data s data ->
  exists m, dmode_of (s_mode s) = Some m /\
    lenZ (s_bits s) = payload_bits (s_mode s) (s_count s) /\
    forall rest, read_payload m (s_count s) (s_bits s ++ rest) = Some (data, rest).
Proof.
  intros (Hp & Hc & Hv). rewrite Hc.
  destruct Hv as [[Hm HF]|[[Hm HF]|[[Hm HF]|[[Hm [HF HP]]|[Hm [HF HP]]]]]]; rewrite Hm in *.
  - exists DNumeric. change (pack_mode 1 data) with (Ok (pack_numeric (S (List.length data)) data)) in Hp.
    injection Hp as <-. change (count_mode 1 data) with (lenZ data).
    split; [reflexivity|]. split; [apply numeric_length|]. intros rest. now apply numeric_roundtrip.
  - exists DAlnum. change (pack_mode 2 data) with (Ok (pack_alnum data)) in Hp.
    injection Hp as <-. change (count_mode 2 data) with (lenZ data).
    split; [reflexivity|]. split; [apply alnum_length|]. intros rest. now apply alnum_roundtrip.
  - exists DByte. change (pack_mode 4 data) with (Ok (flat_map (fun b => bits_of b 8) data)) in Hp.
    injection Hp as <-. change (count_mode 4 data) with (lenZ data).
    split; [reflexivity|]. split; [apply byte_length|]. intros rest. now apply byte_roundtrip.
  - exists DKanji. change (pack_mode 8 data) with (pack_kanji data) in Hp.
    change (count_mode 8 data) with (lenZ data / 2).
    destruct (kanji_roundtrip data HF HP) as (bs & Hbs & Hlen & _ & Hrt).
    rewrite Hp in Hbs. injection Hbs as <-.
    split; [reflexivity|]. split; [rewrite payload_bits_13 by (left; reflexivity); exact Hlen | exact Hrt].
  - exists DHanzi. change (pack_mode 13 data) with (pack_hanzi data) in Hp.
    change (count_mode 13 data) with (lenZ data / 2).
    destruct (hanzi_roundtrip data HF HP) as (bs & Hbs & Hlen & _ & Hrt).
    rewrite Hp in Hbs. injection Hbs as <-.
    split; [reflexivity|]. split; [rewrite payload_bits_13 by (right; reflexivity); exact Hlen | exact Hrt].
Qed.

(* count indicator tables: the model's lookup and the decoder's lookup agree *)
Lemma cci_length_cci mode r w m : dmode_of mode = Some m -> cci_length mode r = Ok w -> cci m r = Some w.
Proof.
  intros Hm H. unfold cci. rewrite (mode_key_dmode_of mode m Hm).
  unfold cci_length, getZ in H.
  destruct (assocZ mode CHAR_COUNT_INDICATOR_LENGTH) as [row|]; [|discriminate H].
  cbn [bind] in H. destruct (assocZ r row) as [x|]; [|discriminate H]. congruence.
Qed.

Lemma cci_table_fin :
  forallb (fun mode => forallb (fun r =>
     match cci_length mode r with Ok w => (3 <=? w) && (w <=? 16) | Err _ => true end)
     (zrange (-3) 4)) [1; 2; 4; 8; 13] = true.
Proof. vm_compute. reflexivity. Qed.

Lemma cci_length_bounds mode r w m : dmode_of mode = Some m -> -3 <= r <= 3 ->
  cci_length mode r = Ok w -> 3 <= w <= 16.
Proof.
  intros Hm Hr H.
  assert (Hin : In mode [1; 2; 4; 8; 13]).
  { apply dmode_of_inv in Hm. cbn [In]. lia. }
  pose proof (proj1 (forallb_forall _ _) cci_table_fin mode Hin) as F. cbv beta in F.
  pose proof (proj1 (forallb_forall _ _) F r (zrange_In (-3) 4 r ltac:(lia))) as G. cbv beta in G.
  rewrite H in G. lia.
Qed.

Lemma qr_range_bounds v : 1 <= qr_range v <= 3.
Proof. unfold qr_range. destruct (v <=? 9); [lia|]. destruct (v <=? 26); lia. Qed.

Lemma version_range_qr v : 1 <= v <= 40 -> version_range v = Ok (qr_range v).
Proof.
  intros Hv. unfold version_range, qr_range, VERSION_RANGE_01_09, VERSION_RANGE_10_26, VERSION_RANGE_27_40.
  destruct ((0 <? v) && (v <? 10)) eqn:E1.
  { destruct (v <=? 9) eqn:F1; [reflexivity | lia]. }
  destruct ((9 <? v) && (v <? 27)) eqn:E2.
  { destruct (v <=? 9) eqn:F1; [lia|]. destruct (v <=? 26) eqn:F2; [reflexivity | lia]. }
  destruct ((26 <? v) && (v <? 41)) eqn:E3; [|lia].
  destruct (v <=? 9) eqn:F1; [lia|]. destruct (v <=? 26) eqn:F2; [lia | reflexivity].
Qed.

(* every ECI assignment number of the table fits the one-byte designator 0bbbbbbb *)
Lemma assocS_Forall {A} (P : A -> Prop) k : forall l x,
  Forall (fun p => P (snd p)) l -> assocS k l = Some x -> P x.
Proof.
  induction l as [|[k' y] l IH]; intros x HF H; cbn [assocS] in H; [discriminate H|].
  apply Forall_cons_iff in HF as [Hy HF].
  destruct (String.eqb k k'); [injection H as <-; exact Hy | now apply IH].
Qed.
Lemma eci_table_small : Forall (fun p : String.string * Z => 0 <= snd p < 128) ECI_ASSIGNMENT_NUM.
Proof. unfold ECI_ASSIGNMENT_NUM. repeat (constructor; [cbn [snd]; lia|]). constructor. Qed.
Lemma eci_number_bound e n : eci_number e = Ok n -> 0 <= n < 128.
Proof.
  unfold eci_number. intros H. destruct e as [x|]; [|discriminate H].
  destruct (e_canon x) as [c|]; [|discriminate H].
  destruct (assocS c ECI_ASSIGNMENT_NUM) as [k|] eqn:E; [|discriminate H]. injection H as <-.
  exact (assocS_Forall (fun z => 0 <= z < 128) c _ k eci_table_small E).
Qed.

(* ------------------------------------------------------------------------------------------ *)
(* 2. QR: one segment                                                                         *)
(* ------------------------------------------------------------------------------------------ *)
Lemma write_segment_qr_inv s r eci bits : write_segment s None r eci = Ok bits ->
  exists hdr w,
    ((has_eci eci s = true /\ exists n, eci_number (s_enc s) = Ok n /\ hdr = bits_of MODE_ECI 4 ++ bits_of n 8)
     \/ (has_eci eci s = false /\ hdr = [])) /\
    cci_length (s_mode s) r = Ok w /\
    bits = hdr ++ (bits_of (s_mode s) 4 ++ (if s_mode s =? MODE_HANZI then bits_of 1 4 else []))
               ++ bits_of (s_count s) w ++ s_bits s.
Proof.
  unfold write_segment. cbv zeta. fold (has_eci eci s). intros H.
  destruct (has_eci eci s) eqn:He.
  - destruct (eci_number (s_enc s)) as [n|e] eqn:En; [|discriminate H]. cbn [bind] in H.
    destruct (cci_length (s_mode s) r) as [w|e] eqn:Ew; [|discriminate H]. cbn [bind] in H.
    injection H as <-. exists (bits_of MODE_ECI 4 ++ bits_of n 8), w.
    split; [left; split; [reflexivity|]; exists n; split; reflexivity|]. split; reflexivity.
  - cbn [bind] in H.
    destruct (cci_length (s_mode s) r) as [w|e] eqn:Ew; [|discriminate H]. cbn [bind] in H.
    injection H as <-. exists [], w. split; [right; split; reflexivity|]. split; reflexivity.
Qed.

(* the ECI header: mode indicator 0111 and a one-byte designator *)
Lemma parse_qr_eci_step f v e n rest acc : 0 <= n < 128 ->
  parse_qr (S f) v e ((bits_of MODE_ECI 4 ++ bits_of n 8) ++ rest) acc = parse_qr f v (Some n) rest acc.
Proof.
  intros Hn. rewrite <- app_assoc. cbn [parse_qr].
  rewrite take_bits_of by (unfold MODE_ECI; lia).
  change (MODE_ECI =? 0) with false. change (MODE_ECI =? 7) with true. cbv iota.
  assert (E : read_eci (bits_of n 8 ++ rest) = take 8 (bits_of n 8 ++ rest)).
  { destruct (bits_of_8_head n Hn) as [t Ht]. rewrite Ht. reflexivity. }
  rewrite E, take_bits_of by lia. reflexivity.
Qed.

(* mode indicator (+ Hanzi subset), count indicator, payload *)
Lemma parse_qr_seg_core f v e mode m w count payload data rest acc :
  dmode_of mode = Some m -> cci m (qr_range v) = Some w -> 0 <= w -> 0 <= count < 2 ^ w ->
  read_payload m count (payload ++ rest) = Some (data, rest) ->
  parse_qr (S f) v e
    ((bits_of mode 4 ++ (if mode =? MODE_HANZI then bits_of 1 4 else [])) ++ bits_of count w ++ payload ++ rest) acc
  = parse_qr f v None rest ({| d_mode := m; d_eci := e; d_count := count; d_bytes := data |} :: acc).
Proof.
  intros Hm Hw Hw0 Hc Hrp. apply dmode_of_inv in Hm.
  destruct Hm as [[-> ->]|[[-> ->]|[[-> ->]|[[-> ->]|[-> ->]]]]];
    rewrite <- !app_assoc; cbn [parse_qr];
    rewrite take_bits_of by lia;
    cbn [Z.eqb Pos.eqb MODE_HANZI app]; rewrite ?take_bits_of by lia; cbv iota;
    rewrite Hw, take_bits_of by assumption; rewrite Hrp; reflexivity.
Qed.

Definition seg_fuel (eci : bool) (s : segment) : nat := if has_eci eci s then 2%nat else 1%nat.

(* 1. one step of parse_qr consumes exactly one written segment *)
Theorem write_segment_parse_qr : forall v eci s data bits,
  1 <= v <= 40 ->
  seg_of_data s data ->
  0 <= s_count s < 2 ^ cci_w (s_mode s) (qr_range v) ->
  write_segment s None (qr_range v) eci = Ok bits ->
  (seg_fuel eci s <= List.length bits)%nat /\
  forall f rest acc,
    parse_qr (seg_fuel eci s + f) v None (bits ++ rest) acc
    = parse_qr f v None rest (expected_dseg eci s data (eci_opt s) :: acc).
Proof.
  intros v eci s data bits Hv Hsd Hcnt Hws.
  destruct (write_segment_qr_inv s (qr_range v) eci bits Hws) as (hdr & w & Hhdr & Hw & ->).
  destruct (seg_payload s data Hsd) as (m & Hm & _ & Hrp).
  unfold cci_w in Hcnt. rewrite Hw in Hcnt.
  pose proof (qr_range_bounds v) as Hr.
  assert (Hwb : 3 <= w <= 16) by (apply (cci_length_bounds (s_mode s) (qr_range v) w m Hm); [lia | exact Hw]).
  pose proof (cci_length_cci _ _ _ _ Hm Hw) as Hcci.
  unfold expected_dseg, seg_fuel. rewrite Hm.
  destruct Hhdr as [[He (n & Hn & ->)]|[He ->]]; rewrite He.
  - split.
    { rewrite !app_length, !bits_of_length. change (Z.to_nat 4) with 4%nat. lia. }
    intros f rest acc. change (2 + f)%nat with (S (S f)).
    rewrite <- (app_assoc (bits_of MODE_ECI 4 ++ bits_of n 8)).
    rewrite parse_qr_eci_step by (eapply eci_number_bound; exact Hn).
    rewrite <- !app_assoc. rewrite (app_assoc (bits_of (s_mode s) 4)).
    rewrite (parse_qr_seg_core f v (Some n) (s_mode s) m w (s_count s) (s_bits s) data rest acc Hm Hcci
               ltac:(lia) Hcnt (Hrp rest)).
    unfold eci_opt. rewrite Hn. reflexivity.
  - split.
    { cbn [app]. rewrite !app_length, !bits_of_length. change (Z.to_nat 4) with 4%nat. lia. }
    intros f rest acc. change (1 + f)%nat with (S f). cbn [app].
    rewrite <- !app_assoc. rewrite (app_assoc (bits_of (s_mode s) 4)).
    rewrite (parse_qr_seg_core f v None (s_mode s) m w (s_count s) (s_bits s) data rest acc Hm Hcci
               ltac:(lia) Hcnt (Hrp rest)).
    reflexivity.
Qed.
Print Assumptions write_segment_parse_qr.

(* ------------------------------------------------------------------------------------------ *)
(* 3. QR: a list of segments, then a tail on which the parser stops                           *)
(* ------------------------------------------------------------------------------------------ *)
(* a segment paired with its content; [r] is the count-indicator column (QR: version range, Micro: version) *)
Definition seg_ok (r : Z) (p : segment * list Z) : Prop :=
  seg_of_data (fst p) (snd p) /\ 0 <= s_count (fst p) < 2 ^ cci_w (s_mode (fst p)) r.
Definition expected_dsegs (eci : bool) (sd : list (segment * list Z)) : list dsegment :=
  map (fun p => expected_dseg eci (fst p) (snd p) (eci_opt (fst p))) sd.

Lemma write_segments_parse_qr_gen v eci : 1 <= v <= 40 ->
  forall sd stream,
  Forall (seg_ok (qr_range v)) sd ->
  write_segments (map fst sd) None (qr_range v) eci = Ok stream ->
  exists K, (K <= List.length stream)%nat /\
    forall f rest acc,
      parse_qr (K + f) v None (stream ++ rest) acc
      = parse_qr f v None rest (rev (expected_dsegs eci sd) ++ acc).
Proof.
  intros Hv. induction sd as [|[s data] sd IH]; intros stream HF Hws.
  - cbn [map write_segments] in Hws. injection Hws as <-. exists 0%nat. split; [cbn [List.length]; lia|].
    intros f rest acc. reflexivity.
  - apply Forall_cons_iff in HF as [[Hsd Hcnt] HF]. cbn [fst snd] in Hsd, Hcnt.
    cbn [map write_segments fst] in Hws.
    destruct (write_segment s None (qr_range v) eci) as [a|e] eqn:Ea; [|discriminate Hws]. cbn [bind] in Hws.
    destruct (write_segments (map fst sd) None (qr_range v) eci) as [b|e] eqn:Eb; [|discriminate Hws].
    cbn [bind] in Hws. injection Hws as <-.
    destruct (IH b HF eq_refl) as (K & HK & HIH).
    destruct (write_segment_parse_qr v eci s data a Hv Hsd Hcnt Ea) as [Hk Hstep].
    exists (seg_fuel eci s + K)%nat. split; [rewrite app_length; lia|].
    intros f rest acc. rewrite <- app_assoc, <- Nat.add_assoc.
    rewrite Hstep, HIH. cbn [expected_dsegs map rev fst snd]. rewrite <- app_assoc. reflexivity.
Qed.

(* the parser stops on: fewer than four bits, or the terminator 0000 *)
Definition tail_stops_qr (tail : list bool) : Prop :=
  lenZ tail < 4 \/ exists t, tail = false :: false :: false :: false :: t.

Lemma take_4_zeros t : take 4 (false :: false :: false :: false :: t) = Some (0, t).
Proof. change (false :: false :: false :: false :: t) with (bits_of 0 4 ++ t). apply take_bits_of; lia. Qed.

Lemma parse_qr_stop f v e tail acc : tail_stops_qr tail -> parse_qr (S f) v e tail acc = Some (rev acc, tail).
Proof.
  intros [Hs|[t ->]]; cbn [parse_qr].
  - now rewrite take_short.
  - rewrite take_4_zeros. reflexivity.
Qed.

(* 2. all segments are read back, and nothing after them is taken for a segment *)
Theorem write_segments_parse_qr : forall v eci sd stream tail fuel,
  1 <= v <= 40 ->
  Forall (seg_ok (qr_range v)) sd ->
  write_segments (map fst sd) None (qr_range v) eci = Ok stream ->
  tail_stops_qr tail ->
  (List.length stream < fuel)%nat ->
  parse_qr fuel v None (stream ++ tail) [] = Some (expected_dsegs eci sd, tail).
Proof.
  intros v eci sd stream tail fuel Hv HF Hws Htail Hfuel.
  destruct (write_segments_parse_qr_gen v eci Hv sd stream HF Hws) as (K & HK & Hgen).
  replace fuel with (K + S (fuel - K - 1))%nat by lia.
  rewrite Hgen, app_nil_r, parse_qr_stop by exact Htail. now rewrite rev_involutive.
Qed.
Print Assumptions write_segments_parse_qr.

(* the decoder's own fuel, S (length of all bits), suffices *)
Corollary write_segments_parse_qr_decoder_fuel : forall v eci sd stream tail,
  1 <= v <= 40 ->
  Forall (seg_ok (qr_range v)) sd ->
  write_segments (map fst sd) None (qr_range v) eci = Ok stream ->
  tail_stops_qr tail ->
  parse_qr (S (List.length (stream ++ tail))) v None (stream ++ tail) [] = Some (expected_dsegs eci sd, tail).
Proof.
  intros v eci sd stream tail Hv HF Hws Htail.
  apply write_segments_parse_qr; try assumption. rewrite app_length. lia.
Qed.

(* ------------------------------------------------------------------------------------------ *)
(* 4. what iso_pad / iso_pad_kf append: a block of zeros that is a full terminator unless the   *)
(*    capacity is exhausted, in which case nothing follows it                                   *)
(* ------------------------------------------------------------------------------------------ *)
Lemma pad_tail_form v cap stream :
  -3 <= v <= 40 -> 0 <= cap ->
  cap mod 8 = (if (v =? -3) || (v =? -1) then 4 else 0) ->
  lenZ stream <= cap ->
  exists k more,
    iso_pad v cap stream = stream ++ repeat false (Z.to_nat k) ++ more /\
    0 <= k <= iso_terminator_length v /\ (k = iso_terminator_length v \/ more = []).
Proof.
  intros Hv Hcap Hmod Hlen.
  destruct (iso_pad_suffix v cap stream Hv Hcap Hmod Hlen)
    as (t & f & n & z & Heq & Ht & Ht0 & Hf & Hn & Hz & Hsum & _ & _).
  pose proof (iso_terminator_length_bounds v Hv) as HT.
  exists t, (repeat false (Z.to_nat f) ++ flat_map pad_byte (zrange 0 n) ++ repeat false (Z.to_nat z)).
  split; [exact Heq|]. split; [lia|].
  destruct (Z.eq_dec t (iso_terminator_length v)) as [E|NE]; [left; exact E | right].
  assert (f = 0) by lia. assert (n = 0) by lia. assert (z = 0) by lia. subst f n z. reflexivity.
Qed.

Lemma pad_kf_tail_form v cap stream :
  -3 <= v <= 40 -> 0 <= cap ->
  cap mod 8 = (if (v =? -3) || (v =? -1) then 4 else 0) ->
  lenZ stream <= cap ->
  exists k more,
    iso_pad_kf v cap stream = stream ++ repeat false (Z.to_nat k) ++ more /\
    0 <= k <= iso_terminator_length v /\ (k = iso_terminator_length v \/ more = []).
Proof.
  intros Hv Hcap Hmod Hlen. unfold iso_pad_kf. cbv zeta.
  destruct (kf_pad_aligned v cap (lenZ stream)) eqn:Hkf; [|now apply pad_tail_form].
  pose proof (iso_terminator_length_bounds v Hv) as HT.
  pose proof (lenZ_nonneg stream) as Hl0.
  unfold kf_pad_aligned in Hkf. cbv zeta in Hkf.
  remember (Z.min (cap - lenZ stream) (iso_terminator_length v)) as t eqn:Et.
  eexists t, _. split; [reflexivity|].
  apply andb_prop in Hkf as [_ Hlt]. split; [lia | left; lia].
Qed.

Lemma tail_stops_qr_zeros k more : 0 <= k <= 4 -> (k = 4 \/ more = []) ->
  tail_stops_qr (repeat false (Z.to_nat k) ++ more).
Proof.
  intros Hk [->| ->].
  - right. change (Z.to_nat 4) with 4%nat. cbn [repeat app]. eexists. reflexivity.
  - destruct (Z.eq_dec k 4) as [->|NE].
    + right. change (Z.to_nat 4) with 4%nat. cbn [repeat app]. eexists. reflexivity.
    + left. rewrite app_nil_r, lenZ_repeat. lia.
Qed.

Lemma qr_cap_mod v cap : 1 <= v -> cap mod 8 = 0 -> cap mod 8 = (if (v =? -3) || (v =? -1) then 4 else 0).
Proof. intros Hv Hc. destruct ((v =? -3) || (v =? -1)) eqn:E; [lia | exact Hc]. Qed.
Lemma qr_terminator v : 1 <= v -> iso_terminator_length v = 4.
Proof. intros Hv. unfold iso_terminator_length. destruct (0 <? v) eqn:E; [reflexivity | lia]. Qed.

(* 4. the padded stream of a QR symbol parses to exactly the written segments; what is left over is the
   terminator and padding that iso_pad / iso_pad_kf appended *)
Theorem parse_padded_stream_qr : forall v cap eci sd stream,
  1 <= v <= 40 ->
  Forall (seg_ok (qr_range v)) sd ->
  write_segments (map fst sd) None (qr_range v) eci = Ok stream ->
  0 <= cap -> cap mod 8 = 0 -> lenZ stream <= cap ->
  forall bs, bs = iso_pad_kf v cap stream \/ bs = iso_pad v cap stream ->
  exists tail, bs = stream ++ tail /\
    parse_qr (S (List.length bs)) v None bs [] = Some (expected_dsegs eci sd, tail).
Proof.
  intros v cap eci sd stream Hv HF Hws Hcap Hmod Hlen bs Hbs.
  assert (Hform : exists k more, bs = stream ++ repeat false (Z.to_nat k) ++ more /\
             0 <= k <= iso_terminator_length v /\ (k = iso_terminator_length v \/ more = [])).
  { destruct Hbs as [-> | ->]; [apply pad_kf_tail_form | apply pad_tail_form];
      try assumption; try lia; apply qr_cap_mod; lia. }
  destruct Hform as (k & more & -> & Hk & Hfull). rewrite qr_terminator in Hk, Hfull by lia.
  eexists. split; [reflexivity|].
  apply write_segments_parse_qr_decoder_fuel; try assumption.
  now apply tail_stops_qr_zeros.
Qed.
Print Assumptions parse_padded_stream_qr.

(* ------------------------------------------------------------------------------------------ *)
(* 5. count_fits: a segment that fits the symbol has a count that fits its count indicator     *)
(* ------------------------------------------------------------------------------------------ *)
Definition cci_col (v : Z) : Z := if 0 <? v then qr_range v else v.       (* column of Table 3 *)
Definition mode_ind_len (v : Z) : Z := if 0 <? v then 4 else v + 3.       (* mode indicator bits *)

Lemma payload_bits_mono m a b : In m [1; 2; 4; 8; 13] -> 0 <= a <= b -> payload_bits m a <= payload_bits m b.
Proof.
  intros Hm Hab. cbn [In] in Hm.
  destruct Hm as [<-|[<-|[<-|[<-|[<-|[]]]]]].
  - rewrite !payload_bits_numeric.
    destruct (a mod 3 =? 0) eqn:A0; destruct (a mod 3 =? 1) eqn:A1;
      destruct (b mod 3 =? 0) eqn:B0; destruct (b mod 3 =? 1) eqn:B1; lia.
  - change (payload_bits 2 a) with (11 * (a / 2) + 6 * (a mod 2)).
    change (payload_bits 2 b) with (11 * (b / 2) + 6 * (b mod 2)). lia.
  - rewrite !payload_bits_byte. lia.
  - rewrite !payload_bits_13 by (left; reflexivity). lia.
  - rewrite !payload_bits_13 by (right; reflexivity). lia.
Qed.

(* for every version, every capacity of its row of Table 7, every mode with a count indicator there:
   the smallest count that does NOT fit the indicator does not fit the symbol either *)
Lemma count_fits_fin :
  forallb (fun v =>
    match assocZ v SYMBOL_CAPACITY with
    | None => false
    | Some row =>
        forallb (fun p : option Z * Z => forallb (fun m =>
          match cci_length m (cci_col v) with
          | Ok w => (0 <=? w) && (snd p <? mode_ind_len v + w + payload_bits m (2 ^ w))
          | Err _ => true end) [1; 2; 4; 8; 13]) row
    end) (zrange (-3) 41) = true.
Proof. vm_compute. reflexivity. Qed.

Lemma assocOZ_In {A} k : forall (l : list (option Z * A)) x, assocOZ k l = Some x -> exists k', In (k', x) l.
Proof.
  induction l as [|[k' y] l IH]; intros x H; cbn [assocOZ] in H; [discriminate H|].
  destruct (oz_eqb k k').
  - injection H as <-. exists k'. now left.
  - destruct (IH x H) as [k'' Hin]. exists k''. now right.
Qed.

Theorem count_fits : forall v l m w cap c,
  -3 <= v <= 40 ->
  spec_capacity v l = Some cap ->
  In m [1; 2; 4; 8; 13] ->
  cci_length m (cci_col v) = Ok w ->
  mode_ind_len v + w + payload_bits m c <= cap ->
  c < 2 ^ w.
Proof.
  intros v l m w cap c Hv Hcap Hm Hw Hfit.
  pose proof (proj1 (forallb_forall _ _) count_fits_fin v (zrange_In (-3) 41 v ltac:(lia))) as F.
  cbv beta in F. unfold spec_capacity in Hcap.
  destruct (assocZ v SYMBOL_CAPACITY) as [row|]; [|discriminate F].
  destruct (assocOZ_In l row cap Hcap) as [l' Hin].
  pose proof (proj1 (forallb_forall _ _) F (l', cap) Hin) as G. cbv beta in G.
  pose proof (proj1 (forallb_forall _ _) G m Hm) as H. cbv beta in H.
  rewrite Hw in H. cbn [snd] in H. apply andb_prop in H as [Hw0 Hno].
  destruct (Z_lt_le_dec c (2 ^ w)) as [Hlt|Hge]; [exact Hlt | exfalso].
  pose proof (pow2_pos w ltac:(lia)) as Hp.
  pose proof (payload_bits_mono m (2 ^ w) c Hm ltac:(lia)) as Hmono. lia.
Qed.
Print Assumptions count_fits.

Lemma capacity_spec v l cap : capacity v l = Ok cap -> spec_capacity v l = Some cap.
Proof.
  unfold capacity, spec_capacity, getZ, getOZ. intros H.
  destruct (assocZ v SYMBOL_CAPACITY) as [row|]; [|discriminate H]. cbn [bind] in H.
  destruct (assocOZ l row) as [x|]; [|discriminate H]. congruence.
Qed.

(* ------------------------------------------------------------------------------------------ *)
(* 6. Micro QR: one segment                                                                   *)
(* ------------------------------------------------------------------------------------------ *)
Definition micro_dmode (ind : Z) : dmode :=
  match ind with 0 => DNumeric | 1 => DAlnum | 2 => DByte | _ => DKanji end.

Ltac micro_case Ehm Hw :=
  let Hw' := fresh "Hw'" in
  pose proof Hw as Hw';
  cbn [getZ assocZ bind MODE_TO_MICRO_MODE_MAPPING
       Z.eqb Pos.eqb Z.ltb Z.compare Pos.compare Pos.compare_cont VERSION_M1 CompOpp] in Ehm;
  vm_compute in Hw';
  first [ discriminate Hw'
        | discriminate Ehm
        | injection Ehm as <-; split; [reflexivity|];
          repeat split; try exact Hw; try lia; try reflexivity; try (vm_compute; reflexivity); intros; lia ].

Lemma write_segment_micro_inv s v bits m : -3 <= v <= 0 -> dmode_of (s_mode s) = Some m ->
  write_segment s (Some v) v false = Ok bits ->
  exists ind w,
    bits = bits_of ind (v + 3) ++ bits_of (s_count s) w ++ s_bits s /\
    0 <= ind <= 3 /\ ind < 2 ^ (v + 3) /\ micro_dmode ind = m /\ (ind = 0 -> s_mode s = 1) /\
    cci_length (s_mode s) v = Ok w.
Proof.
  intros Hv Hm H. unfold write_segment in H. cbv zeta in H. cbn [andb bind] in H.
  match type of H with bind ?X _ = _ => destruct X as [hm|e] eqn:Ehm end; [|discriminate H].
  cbn [bind] in H.
  destruct (cci_length (s_mode s) v) as [w|e] eqn:Hw; [|discriminate H].
  cbn [bind app] in H. injection H as <-.
  apply dmode_of_inv in Hm.
  assert (Hvs : v = -3 \/ v = -2 \/ v = -1 \/ v = 0) by lia.
  destruct Hm as [[Hmode ->]|[[Hmode ->]|[[Hmode ->]|[[Hmode ->]|[Hmode ->]]]]]; rewrite Hmode in *;
    [exists 0, w | exists 1, w | exists 2, w | exists 3, w | exfalso];
    destruct Hvs as [->|[->|[->| ->]]]; micro_case Ehm Hw.
Qed.

Lemma parse_micro_seg_core f v ind w count payload data rest acc :
  -3 <= v <= 0 -> 0 <= ind <= 3 -> ind < 2 ^ (v + 3) ->
  cci (micro_dmode ind) v = Some w -> 0 <= w -> 0 <= count < 2 ^ w -> (ind = 0 -> count <> 0) ->
  read_payload (micro_dmode ind) count (payload ++ rest) = Some (data, rest) ->
  parse_micro (S f) v (bits_of ind (v + 3) ++ bits_of count w ++ payload ++ rest) acc
  = parse_micro f v rest
      ({| d_mode := micro_dmode ind; d_eci := None; d_count := count; d_bytes := data |} :: acc).
Proof.
  intros Hv Hind Hlt Hw Hw0 Hc Hnz Hrp. cbn [parse_micro].
  rewrite take_bits_of by lia.
  assert (Hcases : ind = 0 \/ ind = 1 \/ ind = 2 \/ ind = 3) by lia.
  destruct Hcases as [->|[->|[->| ->]]]; cbn [micro_dmode] in *; cbv iota beta;
    rewrite Hw, take_bits_of by assumption;
    (match goal with |- context [if ?b then _ else _] => destruct b eqn:E end;
     [exfalso; lia|]); rewrite Hrp; reflexivity.
Qed.

(* 3a. one step of parse_micro consumes exactly one written segment *)
Theorem write_segment_parse_micro : forall v s data bits,
  -3 <= v <= 0 ->
  seg_of_data s data ->
  0 <= s_count s < 2 ^ cci_w (s_mode s) v ->
  (s_mode s = 1 -> s_count s <> 0) ->
  write_segment s (Some v) v false = Ok bits ->
  (1 <= List.length bits)%nat /\
  forall f rest acc,
    parse_micro (S f) v (bits ++ rest) acc = parse_micro f v rest (expected_dseg false s data None :: acc).
Proof.
  intros v s data bits Hv Hsd Hcnt Hnz Hws.
  destruct (seg_payload s data Hsd) as (m & Hm & _ & Hrp).
  destruct (write_segment_micro_inv s v bits m Hv Hm Hws) as (ind & w & -> & Hind & Hlt & Hdm & Hi0 & Hw).
  unfold cci_w in Hcnt. rewrite Hw in Hcnt.
  assert (Hwb : 3 <= w <= 16) by (apply (cci_length_bounds (s_mode s) v w m Hm); [lia | exact Hw]).
  pose proof (cci_length_cci _ _ _ _ Hm Hw) as Hcci.
  split.
  { rewrite !app_length, !bits_of_length. lia. }
  intros f rest acc. unfold expected_dseg. rewrite Hm. change (has_eci false s) with false. cbv iota.
  subst m. rewrite <- !app_assoc.
  apply parse_micro_seg_core; try assumption; try lia; try apply Hrp.
Qed.
Print Assumptions write_segment_parse_micro.

(* ------------------------------------------------------------------------------------------ *)
(* 7. Micro QR: a list of segments and the stop condition                                      *)
(* ------------------------------------------------------------------------------------------ *)
(* in a Micro QR symbol a numeric header with count 0 IS the terminator, so no segment may look like that *)
Definition seg_ok_micro (v : Z) (p : segment * list Z) : Prop :=
  seg_ok v p /\ (s_mode (fst p) = 1 -> s_count (fst p) <> 0).

Lemma write_segments_parse_micro_gen v : -3 <= v <= 0 ->
  forall sd stream,
  Forall (seg_ok_micro v) sd ->
  write_segments (map fst sd) (Some v) v false = Ok stream ->
  (List.length sd <= List.length stream)%nat /\
  forall f rest acc,
    parse_micro (List.length sd + f) v (stream ++ rest) acc
    = parse_micro f v rest (rev (expected_dsegs false sd) ++ acc).
Proof.
  intros Hv. induction sd as [|[s data] sd IH]; intros stream HF Hws.
  - cbn [map write_segments] in Hws. injection Hws as <-. split; [cbn [List.length]; lia|].
    intros f rest acc. reflexivity.
  - apply Forall_cons_iff in HF as [[[Hsd Hcnt] Hnz] HF]. cbn [fst snd] in Hsd, Hcnt, Hnz.
    cbn [map write_segments fst] in Hws.
    destruct (write_segment s (Some v) v false) as [a|e] eqn:Ea; [|discriminate Hws]. cbn [bind] in Hws.
    destruct (write_segments (map fst sd) (Some v) v false) as [b|e] eqn:Eb; [|discriminate Hws].
    cbn [bind] in Hws. injection Hws as <-.
    destruct (IH b HF eq_refl) as (HK & HIH).
    destruct (write_segment_parse_micro v s data a Hv Hsd Hcnt Hnz Ea) as [Hk Hstep].
    split; [rewrite app_length; cbn [List.length]; lia|].
    intros f rest acc. rewrite <- app_assoc. cbn [List.length Nat.add].
    rewrite Hstep, HIH. cbn [expected_dsegs map rev fst snd]. rewrite <- app_assoc. reflexivity.
Qed.

Lemma micro_terminator v : v <= 0 -> iso_terminator_length v = 2 * v + 9.
Proof. intros Hv. unfold iso_terminator_length. destruct (0 <? v) eqn:E; lia. Qed.
Lemma cci_numeric_micro v : -3 <= v <= 0 -> cci DNumeric v = Some (v + 6).
Proof.
  intros Hv. assert (Hvs : v = -3 \/ v = -2 \/ v = -1 \/ v = 0) by lia.
  destruct Hvs as [->|[->|[->| ->]]]; reflexivity.
Qed.

(* mode indicator length + numeric count length = terminator length: a complete terminator reads as
   "numeric, count 0"; a truncated one leaves fewer bits than a header needs *)
Lemma parse_micro_stop f v k more acc :
  -3 <= v <= 0 -> 0 <= k <= iso_terminator_length v -> (k = iso_terminator_length v \/ more = []) ->
  parse_micro (S f) v (repeat false (Z.to_nat k) ++ more) acc
  = Some (rev acc, repeat false (Z.to_nat k) ++ more).
Proof.
  intros Hv Hk Hfull. rewrite micro_terminator in Hk, Hfull by lia.
  remember (repeat false (Z.to_nat k) ++ more) as tail eqn:Etail.
  cbn [parse_micro].
  destruct (Z_lt_le_dec k (v + 3)) as [Hsmall|Hbig].
  - assert (more = []) as -> by (destruct Hfull as [E|E]; [lia | exact E]).
    rewrite app_nil_r in Etail.
    rewrite take_short; [reflexivity|]. subst tail. rewrite lenZ_repeat. lia.
  - assert (E1 : take (v + 3) tail = Some (0, repeat false (Z.to_nat (k - (v + 3))) ++ more)).
    { subst tail. apply take_zeros. lia. }
    rewrite E1. cbv iota beta. rewrite cci_numeric_micro by exact Hv.
    destruct Hfull as [Hfull| ->].
    + rewrite take_zeros by lia. reflexivity.
    + destruct (Z.eq_dec k (2 * v + 9)) as [Ek|NE].
      * rewrite take_zeros by lia. reflexivity.
      * rewrite take_short; [reflexivity|]. rewrite app_nil_r, lenZ_repeat. lia.
Qed.

(* 3b. all Micro QR segments are read back and the parser stops on the terminator / end of capacity *)
Theorem write_segments_parse_micro : forall v sd stream k more fuel,
  -3 <= v <= 0 ->
  Forall (seg_ok_micro v) sd ->
  write_segments (map fst sd) (Some v) v false = Ok stream ->
  0 <= k <= iso_terminator_length v -> (k = iso_terminator_length v \/ more = []) ->
  (List.length stream < fuel)%nat ->
  parse_micro fuel v (stream ++ repeat false (Z.to_nat k) ++ more) []
  = Some (expected_dsegs false sd, repeat false (Z.to_nat k) ++ more).
Proof.
  intros v sd stream k more fuel Hv HF Hws Hk Hfull Hfuel.
  destruct (write_segments_parse_micro_gen v Hv sd stream HF Hws) as (HK & Hgen).
  replace fuel with (List.length sd + S (fuel - List.length sd - 1))%nat by lia.
  rewrite Hgen, app_nil_r, parse_micro_stop by assumption. now rewrite rev_involutive.
Qed.
Print Assumptions write_segments_parse_micro.

(* 4 (Micro). the padded stream of a Micro QR symbol *)
Theorem parse_padded_stream_micro : forall v cap sd stream,
  -3 <= v <= 0 ->
  Forall (seg_ok_micro v) sd ->
  write_segments (map fst sd) (Some v) v false = Ok stream ->
  0 <= cap -> cap mod 8 = (if (v =? -3) || (v =? -1) then 4 else 0) -> lenZ stream <= cap ->
  forall bs, bs = iso_pad_kf v cap stream \/ bs = iso_pad v cap stream ->
  exists tail, bs = stream ++ tail /\
    parse_micro (S (List.length bs)) v bs [] = Some (expected_dsegs false sd, tail).
Proof.
  intros v cap sd stream Hv HF Hws Hcap Hmod Hlen bs Hbs.
  assert (Hform : exists k more, bs = stream ++ repeat false (Z.to_nat k) ++ more /\
             0 <= k <= iso_terminator_length v /\ (k = iso_terminator_length v \/ more = [])).
  { destruct Hbs as [-> | ->]; [apply pad_kf_tail_form | apply pad_tail_form]; try assumption; lia. }
  destruct Hform as (k & more & -> & Hk & Hfull).
  eexists. split; [reflexivity|].
  apply write_segments_parse_micro; try assumption. rewrite app_length. lia.
Qed.
Print Assumptions parse_padded_stream_micro.

(* ------------------------------------------------------------------------------------------ *)
(* 8. fitting the symbol implies the count bounds: final forms without the count hypothesis    *)
(* ------------------------------------------------------------------------------------------ *)
Lemma write_segments_In ver r eci : forall segs stream s,
  write_segments segs ver r eci = Ok stream -> In s segs ->
  exists bits, write_segment s ver r eci = Ok bits /\ lenZ bits <= lenZ stream.
Proof.
  induction segs as [|s0 segs IH]; intros stream s Hws Hin; [destruct Hin|].
  cbn [write_segments] in Hws.
  destruct (write_segment s0 ver r eci) as [a|e] eqn:Ea; [|discriminate Hws]. cbn [bind] in Hws.
  destruct (write_segments segs ver r eci) as [b|e] eqn:Eb; [|discriminate Hws]. cbn [bind] in Hws.
  injection Hws as <-. rewrite lenZ_app.
  pose proof (lenZ_nonneg a) as Ha. pose proof (lenZ_nonneg b) as Hb.
  destruct Hin as [<-|Hin].
  - exists a. split; [exact Ea | lia].
  - destruct (IH b s eq_refl Hin) as (bits & Hbits & Hle). exists bits. split; [exact Hbits | lia].
Qed.

Lemma seg_count_nonneg s data : seg_of_data s data -> 0 <= s_count s.
Proof.
  intros (_ & Hc & _). rewrite Hc. unfold count_mode. pose proof (lenZ_nonneg data) as Hl.
  destruct ((s_mode s =? MODE_KANJI) || (s_mode s =? MODE_HANZI)); lia.
Qed.

Lemma dmode_of_In mode m : dmode_of mode = Some m -> In mode [1; 2; 4; 8; 13].
Proof. intros H. apply dmode_of_inv in H. cbn [In]. lia. Qed.

Theorem fits_seg_ok_qr : forall v l cap eci sd stream,
  1 <= v <= 40 ->
  spec_capacity v l = Some cap ->
  Forall (fun p => seg_of_data (fst p) (snd p)) sd ->
  write_segments (map fst sd) None (qr_range v) eci = Ok stream ->
  lenZ stream <= cap ->
  Forall (seg_ok (qr_range v)) sd.
Proof.
  intros v l cap eci sd stream Hv Hcap HF Hws Hlen.
  apply Forall_forall. intros p Hin.
  pose proof (proj1 (Forall_forall _ _) HF p Hin) as Hsd. cbv beta in Hsd.
  destruct (write_segments_In None (qr_range v) eci _ stream (fst p) Hws (in_map fst sd p Hin))
    as (bits & Hbits & Hle).
  destruct (write_segment_qr_inv _ _ _ _ Hbits) as (hdr & w & _ & Hw & Hb).
  destruct (seg_payload _ _ Hsd) as (m & Hm & Hpl & _).
  split; [exact Hsd|]. split; [now apply (seg_count_nonneg _ (snd p))|].
  unfold cci_w. rewrite Hw.
  assert (Hwb : 3 <= w <= 16).
  { apply (cci_length_bounds (s_mode (fst p)) (qr_range v) w m Hm); [pose proof (qr_range_bounds v); lia | exact Hw]. }
  apply (count_fits v l (s_mode (fst p)) w cap); [lia | exact Hcap | now apply (dmode_of_In _ m) | |].
  - unfold cci_col. destruct (0 <? v) eqn:E; [exact Hw | lia].
  - unfold mode_ind_len. destruct (0 <? v) eqn:E; [|lia].
    rewrite <- Hpl. subst bits. rewrite !lenZ_app, !lenZ_bits_of in Hle by lia.
    pose proof (lenZ_nonneg hdr).
    pose proof (lenZ_nonneg (if s_mode (fst p) =? MODE_HANZI then bits_of 1 4 else [])). lia.
Qed.

Theorem fits_seg_ok_micro : forall v l cap sd stream,
  -3 <= v <= 0 ->
  spec_capacity v l = Some cap ->
  Forall (fun p => seg_of_data (fst p) (snd p)) sd ->
  write_segments (map fst sd) (Some v) v false = Ok stream ->
  lenZ stream <= cap ->
  Forall (seg_ok v) sd.
Proof.
  intros v l cap sd stream Hv Hcap HF Hws Hlen.
  apply Forall_forall. intros p Hin.
  pose proof (proj1 (Forall_forall _ _) HF p Hin) as Hsd. cbv beta in Hsd.
  destruct (write_segments_In (Some v) v false _ stream (fst p) Hws (in_map fst sd p Hin))
    as (bits & Hbits & Hle).
  destruct (seg_payload _ _ Hsd) as (m & Hm & Hpl & _).
  destruct (write_segment_micro_inv _ v bits m Hv Hm Hbits) as (ind & w & Hb & _ & _ & _ & _ & Hw).
  split; [exact Hsd|]. split; [now apply (seg_count_nonneg _ (snd p))|].
  unfold cci_w. rewrite Hw.
  assert (Hwb : 3 <= w <= 16).
  { apply (cci_length_bounds (s_mode (fst p)) v w m Hm); [lia | exact Hw]. }
  apply (count_fits v l (s_mode (fst p)) w cap); [lia | exact Hcap | now apply (dmode_of_In _ m) | |].
  - unfold cci_col. destruct (0 <? v) eqn:E; [lia | exact Hw].
  - unfold mode_ind_len. destruct (0 <? v) eqn:E; [lia|].
    rewrite <- Hpl. subst bits. rewrite !lenZ_app, !lenZ_bits_of in Hle by lia. lia.
Qed.
Print Assumptions fits_seg_ok_qr.
Print Assumptions fits_seg_ok_micro.

(* Table 7: data capacities are whole codewords, except M1 / M3 whose last codeword has 4 bits *)
Lemma capacity_mod8_fin :
  forallb (fun v =>
    match assocZ v SYMBOL_CAPACITY with
    | None => false
    | Some row => forallb (fun p : option Z * Z =>
        (0 <=? snd p) && (snd p mod 8 =? (if (v =? -3) || (v =? -1) then 4 else 0))) row
    end) (zrange (-3) 41) = true.
Proof. vm_compute. reflexivity. Qed.

Lemma capacity_mod8 v l cap : -3 <= v <= 40 -> spec_capacity v l = Some cap ->
  0 <= cap /\ cap mod 8 = (if (v =? -3) || (v =? -1) then 4 else 0).
Proof.
  intros Hv Hcap.
  pose proof (proj1 (forallb_forall _ _) capacity_mod8_fin v (zrange_In (-3) 41 v ltac:(lia))) as F.
  cbv beta in F. unfold spec_capacity in Hcap.
  destruct (assocZ v SYMBOL_CAPACITY) as [row|]; [|discriminate F].
  destruct (assocOZ_In l row cap Hcap) as [l' Hin].
  pose proof (proj1 (forallb_forall _ _) F (l', cap) Hin) as G. cbv beta in G. cbn [snd] in G.
  apply andb_prop in G as [G1 G2]. split; [lia|].
  destruct ((v =? -3) || (v =? -1)); lia.
Qed.

(* Main corollary, QR: segments that encode their contents, written by the model into a stream that fits
   the data capacity of (v, l), then terminated and padded as ISO prescribes (or with the known deviation
   D1): the reference parser, with the fuel decode_symbol gives it, returns exactly those contents and
   leaves exactly the terminator / padding. *)
Theorem parse_symbol_stream_qr : forall v l cap eci sd stream,
  1 <= v <= 40 ->
  spec_capacity v l = Some cap ->
  Forall (fun p => seg_of_data (fst p) (snd p)) sd ->
  write_segments (map fst sd) None (qr_range v) eci = Ok stream ->
  lenZ stream <= cap ->
  forall bs, bs = iso_pad_kf v cap stream \/ bs = iso_pad v cap stream ->
  exists tail, bs = stream ++ tail /\
    parse_qr (S (List.length bs)) v None bs [] = Some (expected_dsegs eci sd, tail).
Proof.
  intros v l cap eci sd stream Hv Hcap HF Hws Hlen bs Hbs.
  destruct (capacity_mod8 v l cap ltac:(lia) Hcap) as [Hc0 Hc8].
  apply (parse_padded_stream_qr v cap eci sd stream); try assumption.
  - now apply (fits_seg_ok_qr v l cap eci sd stream).
  - destruct ((v =? -3) || (v =? -1)) eqn:E; [lia | exact Hc8].
Qed.
Print Assumptions parse_symbol_stream_qr.

(* Main corollary, Micro QR; the only extra hypothesis: no numeric segment with count 0 *)
Theorem parse_symbol_stream_micro : forall v l cap sd stream,
  -3 <= v <= 0 ->
  spec_capacity v l = Some cap ->
  Forall (fun p => seg_of_data (fst p) (snd p)) sd ->
  Forall (fun p => s_mode (fst p) = 1 -> s_count (fst p) <> 0) sd ->
  write_segments (map fst sd) (Some v) v false = Ok stream ->
  lenZ stream <= cap ->
  forall bs, bs = iso_pad_kf v cap stream \/ bs = iso_pad v cap stream ->
  exists tail, bs = stream ++ tail /\
    parse_micro (S (List.length bs)) v bs [] = Some (expected_dsegs false sd, tail).
Proof.
  intros v l cap sd stream Hv Hcap HF Hnz Hws Hlen bs Hbs.
  destruct (capacity_mod8 v l cap ltac:(lia) Hcap) as [Hc0 Hc8].
  apply (parse_padded_stream_micro v cap sd stream); try assumption.
  pose proof (fits_seg_ok_micro v l cap sd stream Hv Hcap HF Hws Hlen) as Hok.
  apply Forall_forall. intros p Hin. split.
  - exact (proj1 (Forall_forall _ _) Hok p Hin).
  - exact (proj1 (Forall_forall _ _) Hnz p Hin).
Qed.
Print Assumptions parse_symbol_stream_micro.

(* ------------------------------------------------------------------------------------------ *)
(* 9. the Micro QR hypothesis "no numeric segment with count 0" is necessary, and the encoder   *)
(*    model never produces such a segment                                                      *)
(* ------------------------------------------------------------------------------------------ *)
(* an empty numeric segment in M2 is written as 0 0000, i.e. as a terminator; the reader (correctly, per
   ISO) stops there.  This is a property of the symbology, not a defect of encoder or decoder. *)
Example micro_empty_numeric_is_terminator :
  let s := {| s_bits := []; s_count := 0; s_mode := 1; s_enc := None |} in
  seg_of_data s [] /\
  write_segment s (Some (-2)) (-2) false = Ok [false; false; false; false; false] /\
  parse_micro 6 (-2) [false; false; false; false; false] [] = Some ([], [false; false; false; false; false]).
Proof.
  cbv zeta. split; [|split; vm_compute; reflexivity].
  split; [reflexivity|]. split; [reflexivity|]. left. split; [reflexivity | constructor].
Qed.

Lemma find_mode_le1 data : find_mode data <= 1 -> lenZ data <> 0.
Proof.
  unfold find_mode, MODE_NUMERIC, MODE_ALPHANUMERIC, MODE_KANJI, MODE_BYTE.
  destruct (negb (lenZ data =? 0) && forallb is_digit data) eqn:E1.
  { intros _. apply andb_prop in E1 as [E1 _]. lia. }
  destruct (negb (lenZ data =? 0) && forallb is_alnum_char data); [lia|].
  destruct (is_kanji data); lia.
Qed.

Definition count_sane (x : segment) : Prop := 0 <= s_count x /\ (s_mode x = 1 -> s_count x <> 0).

Lemma make_segment_count_sane c mode encoding s : make_segment c mode encoding = Ok s -> count_sane s.
Proof.
  unfold make_segment. intros H.
  destruct (data_to_bytes c _) as [[data senc]|e]; [|discriminate H].
  cbn [bind] in H.
  match type of H with context [bind ?X _] =>
    match X with (match mode with _ => _ end) => destruct X as [smode|e] eqn:Esm end end; [|discriminate H].
  cbn [bind] in H.
  match type of H with (if ?b then _ else _) = _ => destruct b end; [discriminate H|].
  match type of H with context [bind ?X _] => destruct X as [bs|e] end; [|discriminate H].
  cbn [bind] in H. injection H as <-. unfold count_sane. cbn [s_mode s_count].
  pose proof (lenZ_nonneg data) as Hl. split.
  { destruct ((smode =? MODE_KANJI) || (smode =? MODE_HANZI)); lia. }
  intros ->.
  change ((1 =? MODE_KANJI) || (1 =? MODE_HANZI)) with false. cbv iota.
  apply find_mode_le1.
  destruct mode as [m|].
  - destruct (m <? (if oz_eqb (Some m) (Some MODE_BYTE) then MODE_BYTE else find_mode data)) eqn:E;
      [discriminate Esm|]. injection Esm as ->.
    change (oz_eqb (Some 1) (Some MODE_BYTE)) with false in E. cbv iota in E. lia.
  - injection Esm as Esm. change (oz_eqb None (Some MODE_BYTE)) with false in Esm. cbv iota in Esm. lia.
Qed.

Lemma add_segment_count_sane acc s :
  Forall count_sane acc -> count_sane s -> Forall count_sane (add_segment acc s).
Proof.
  intros HF [H0 Hs]. destruct acc as [|prev rest]; cbn [add_segment]; [constructor; [split; assumption | constructor]|].
  destruct ((s_mode prev =? s_mode s) && oenc_eqb (s_enc prev) (s_enc s)
            && (s_count prev mod merge_group (s_mode s) =? 0)) eqn:E.
  - apply Forall_cons_iff in HF as [[Hp0 Hp] HF]. constructor; [|exact HF].
    unfold count_sane. cbn [s_mode s_count]. split; [lia|]. intros Hm. specialize (Hs Hm). lia.
  - constructor; [split; assumption | exact HF].
Qed.

(* every segment list the model's prepare_data produces satisfies the Micro QR side condition *)
Theorem prepare_data_count_sane : forall parts segs,
  prepare_data parts = Ok segs -> Forall count_sane segs.
Proof.
  unfold prepare_data. intros parts.
  assert (G : forall acc segs, Forall count_sane acc -> prepare_aux parts acc = Ok segs -> Forall count_sane segs).
  { induction parts as [|p r IH]; intros acc segs Hacc H; cbn [prepare_aux] in H.
    - injection H as <-. apply Forall_rev. exact Hacc.
    - destruct (make_segment (p_content p) (p_mode p) (p_enc p)) as [s|e] eqn:Es; [|discriminate H].
      cbn [bind] in H. apply (IH (add_segment acc s) segs); [|exact H].
      apply add_segment_count_sane; [exact Hacc | eapply make_segment_count_sane; exact Es]. }
  intros segs. apply G. constructor.
Qed.
Print Assumptions prepare_data_count_sane.

(* ------------------------------------------------------------------------------------------ *)
(* 10. Structured Append header (QR)                                                           *)
(* ------------------------------------------------------------------------------------------ *)
(* literally the header reader inlined in Ref/Decoder.v decode_symbol *)
Definition read_sa (bs : list bool) : option (Z * Z * Z) * list bool :=
  match take 4 bs with
  | Some (3, r) => match take 4 r with Some (idx, r1) =>
                     match take 4 r1 with Some (tot, r2) =>
                       match take 8 r2 with Some (par, r3) => (Some (idx, tot, par), r3)
                       | None => (None, bs) end | None => (None, bs) end | None => (None, bs) end
  | _ => (None, bs) end.

Definition sa_header (idx total parity : Z) : bits :=
  bits_of MODE_STRUCTURED_APPEND 4 ++ bits_of idx 4 ++ bits_of total 4 ++ bits_of parity 8.

Theorem read_sa_header : forall idx total parity rest,
  0 <= idx < 16 -> 0 <= total < 16 -> 0 <= parity < 256 ->
  read_sa (sa_header idx total parity ++ rest) = (Some (idx, total, parity), rest).
Proof.
  intros idx total parity rest Hi Ht Hp. unfold read_sa, sa_header, MODE_STRUCTURED_APPEND.
  rewrite <- !app_assoc.
  rewrite take_bits_of by lia. cbv iota.
  rewrite take_bits_of by lia. rewrite take_bits_of by lia. rewrite take_bits_of by lia. reflexivity.
Qed.
Print Assumptions read_sa_header.

Lemma read_sa_none bs : take 4 bs = None -> read_sa bs = (None, bs).
Proof. intros H. unfold read_sa. rewrite H. reflexivity. Qed.
Lemma read_sa_not3 bs ind r : take 4 bs = Some (ind, r) -> ind <> 3 -> read_sa bs = (None, bs).
Proof.
  intros H Hne. unfold read_sa. rewrite H.
  destruct ind as [|[[p|p|]|p|]|p]; first [reflexivity | exfalso; lia].
Qed.

(* a stream that starts with a written segment starts with one of the indicators 1, 2, 4, 7, 8, 13 *)
Lemma write_segment_first_indicator s r eci bits m rest :
  write_segment s None r eci = Ok bits -> dmode_of (s_mode s) = Some m ->
  exists ind r', take 4 (bits ++ rest) = Some (ind, r') /\ In ind [1; 2; 4; 7; 8; 13].
Proof.
  intros Hws Hm.
  destruct (write_segment_qr_inv s r eci bits Hws) as (hdr & w & Hhdr & _ & ->).
  destruct Hhdr as [[_ (n & _ & ->)]|[_ ->]].
  - rewrite <- !app_assoc. eexists _, _. split; [apply take_bits_of; unfold MODE_ECI; lia|].
    unfold MODE_ECI. cbn [In]. lia.
  - cbn [app]. rewrite <- !app_assoc. eexists _, _.
    pose proof (dmode_of_In _ _ Hm) as Hin. cbn [In] in Hin.
    split; [apply take_bits_of; lia|]. cbn [In]. lia.
Qed.

(* without a Structured Append header none is read *)
Theorem read_sa_plain_stream : forall v eci sd stream tail,
  Forall (fun p => seg_of_data (fst p) (snd p)) sd ->
  write_segments (map fst sd) None (qr_range v) eci = Ok stream ->
  tail_stops_qr tail ->
  read_sa (stream ++ tail) = (None, stream ++ tail).
Proof.
  intros v eci sd stream tail HF Hws Htail. destruct sd as [|[s data] sd].
  - cbn [map write_segments] in Hws. injection Hws as <-. cbn [app].
    destruct Htail as [Hs|[t ->]].
    + apply read_sa_none. now apply take_short.
    + apply (read_sa_not3 _ 0 t); [apply take_4_zeros | lia].
  - apply Forall_cons_iff in HF as [Hsd _]. cbn [fst snd] in Hsd.
    cbn [map write_segments fst] in Hws.
    destruct (write_segment s None (qr_range v) eci) as [a|e] eqn:Ea; [|discriminate Hws]. cbn [bind] in Hws.
    destruct (write_segments (map fst sd) None (qr_range v) eci) as [b|e] eqn:Eb; [|discriminate Hws].
    cbn [bind] in Hws. injection Hws as <-.
    destruct (seg_payload s data Hsd) as (m & Hm & _ & _).
    rewrite <- app_assoc.
    destruct (write_segment_first_indicator s _ eci a m (b ++ tail) Ea Hm) as (ind & r' & Ht & Hin).
    apply (read_sa_not3 _ ind r' Ht). cbn [In] in Hin. lia.
Qed.
Print Assumptions read_sa_plain_stream.

(* Main corollary with a Structured Append header in front (as Model/Encode.v data_stream writes it) *)
Theorem parse_symbol_stream_qr_sa : forall v l cap eci sd stream idx total parity,
  1 <= v <= 40 ->
  spec_capacity v l = Some cap ->
  Forall (fun p => seg_of_data (fst p) (snd p)) sd ->
  write_segments (map fst sd) None (qr_range v) eci = Ok stream ->
  0 <= idx < 16 -> 0 <= total < 16 -> 0 <= parity < 256 ->
  lenZ (sa_header idx total parity ++ stream) <= cap ->
  forall bs, bs = iso_pad_kf v cap (sa_header idx total parity ++ stream)
          \/ bs = iso_pad v cap (sa_header idx total parity ++ stream) ->
  exists tail, bs = sa_header idx total parity ++ stream ++ tail /\
    read_sa bs = (Some (idx, total, parity), stream ++ tail) /\
    parse_qr (S (List.length (stream ++ tail))) v None (stream ++ tail) [] = Some (expected_dsegs eci sd, tail).
Proof.
  intros v l cap eci sd stream idx total parity Hv Hcap HF Hws Hi Ht Hp Hlen bs Hbs.
  destruct (capacity_mod8 v l cap ltac:(lia) Hcap) as [Hc0 Hc8].
  assert (Hform : exists k more, bs = (sa_header idx total parity ++ stream) ++ repeat false (Z.to_nat k) ++ more /\
             0 <= k <= iso_terminator_length v /\ (k = iso_terminator_length v \/ more = [])).
  { destruct Hbs as [-> | ->]; [apply pad_kf_tail_form | apply pad_tail_form]; try assumption; lia. }
  destruct Hform as (k & more & -> & Hk & Hfull). rewrite qr_terminator in Hk, Hfull by lia.
  exists (repeat false (Z.to_nat k) ++ more). rewrite <- app_assoc.
  split; [reflexivity|]. split; [now apply read_sa_header|].
  apply write_segments_parse_qr_decoder_fuel; try assumption.
  - apply (fits_seg_ok_qr v l cap eci sd stream); try assumption.
    rewrite lenZ_app in Hlen. pose proof (lenZ_nonneg (sa_header idx total parity)). lia.
  - now apply tail_stops_qr_zeros.
Qed.
Print Assumptions parse_symbol_stream_qr_sa.

(* ------------------------------------------------------------------------------------------ *)
(* 11. link to the model's data_stream (Model/Encode.v) through PadLemmas.pad_model_is_iso_kf   *)
(* ------------------------------------------------------------------------------------------ *)
Theorem data_stream_parse_qr : forall v error eci sd buff,
  1 <= v <= 40 ->
  Forall (fun p => seg_of_data (fst p) (snd p)) sd ->
  data_stream (map fst sd) error v eci None = Ok buff ->
  (forall stream cap, write_segments (map fst sd) None (qr_range v) eci = Ok stream ->
                      capacity v error = Ok cap -> lenZ stream <= cap) ->
  exists cap stream tail,
    capacity v error = Ok cap /\ write_segments (map fst sd) None (qr_range v) eci = Ok stream /\
    firstn (Z.to_nat cap) buff = stream ++ tail /\
    parse_qr (S (List.length (firstn (Z.to_nat cap) buff))) v None (firstn (Z.to_nat cap) buff) []
    = Some (expected_dsegs eci sd, tail).
Proof.
  intros v error eci sd buff Hv HF H Hfit. unfold data_stream in H. cbv zeta in H.
  destruct (v <? 1) eqn:E; [lia|]. rewrite version_range_qr in H by lia. cbn [bind] in H.
  destruct (write_segments (map fst sd) None (qr_range v) eci) as [stream|e] eqn:Hws; [|discriminate H].
  cbn [bind] in H.
  destruct (capacity v error) as [cap|e] eqn:Hcap; [|discriminate H]. cbn [bind app] in H.
  destruct (write_terminator stream cap None) as [b1|e] eqn:Hwt; [|discriminate H]. cbn [bind] in H.
  injection H as <-.
  specialize (Hfit stream cap eq_refl eq_refl).
  pose proof (capacity_spec _ _ _ Hcap) as Hspec. clear Hcap. rename Hspec into Hcap.
  destruct (capacity_mod8 v error cap ltac:(lia) Hcap) as [Hc0 Hc8].
  assert (Epad : firstn (Z.to_nat cap) (write_pad_codewords (write_padding_bits b1 v) v cap)
                 = iso_pad_kf v cap stream).
  { apply pad_model_is_iso_kf; try assumption; try lia. rewrite E. exact Hwt. }
  destruct (parse_symbol_stream_qr v error cap eci sd stream Hv Hcap HF Hws Hfit _ (or_introl eq_refl))
    as (tail & Htail & Hparse).
  exists cap, stream, tail. rewrite Epad. repeat split; first [assumption | reflexivity].
Qed.
Print Assumptions data_stream_parse_qr.

Theorem data_stream_parse_micro : forall v error sd buff,
  -3 <= v <= 0 ->
  Forall (fun p => seg_of_data (fst p) (snd p)) sd ->
  Forall (fun p => count_sane (fst p)) sd ->
  data_stream (map fst sd) error v false None = Ok buff ->
  (forall stream cap, write_segments (map fst sd) (Some v) v false = Ok stream ->
                      capacity v error = Ok cap -> lenZ stream <= cap) ->
  exists cap stream tail,
    capacity v error = Ok cap /\ write_segments (map fst sd) (Some v) v false = Ok stream /\
    firstn (Z.to_nat cap) buff = stream ++ tail /\
    parse_micro (S (List.length (firstn (Z.to_nat cap) buff))) v (firstn (Z.to_nat cap) buff) []
    = Some (expected_dsegs false sd, tail).
Proof.
  intros v error sd buff Hv HF Hsane H Hfit. unfold data_stream in H. cbv zeta in H.
  destruct (v <? 1) eqn:E; [|lia]. cbn [bind] in H.
  destruct (write_segments (map fst sd) (Some v) v false) as [stream|e] eqn:Hws; [|discriminate H].
  cbn [bind] in H.
  destruct (capacity v error) as [cap|e] eqn:Hcap; [|discriminate H]. cbn [bind app] in H.
  destruct (write_terminator stream cap (Some v)) as [b1|e] eqn:Hwt; [|discriminate H]. cbn [bind] in H.
  injection H as <-.
  specialize (Hfit stream cap eq_refl eq_refl).
  pose proof (capacity_spec _ _ _ Hcap) as Hspec. clear Hcap. rename Hspec into Hcap.
  destruct (capacity_mod8 v error cap ltac:(lia) Hcap) as [Hc0 Hc8].
  assert (Epad : firstn (Z.to_nat cap) (write_pad_codewords (write_padding_bits b1 v) v cap)
                 = iso_pad_kf v cap stream).
  { apply pad_model_is_iso_kf; try assumption; try lia. rewrite E. exact Hwt. }
  assert (Hnz : Forall (fun p => s_mode (fst p) = 1 -> s_count (fst p) <> 0) sd).
  { apply Forall_forall. intros p Hin. exact (proj2 (proj1 (Forall_forall _ _) Hsane p Hin)). }
  destruct (parse_symbol_stream_micro v error cap sd stream Hv Hcap HF Hnz Hws Hfit _ (or_introl eq_refl))
    as (tail & Htail & Hparse).
  exists cap, stream, tail. rewrite Epad. repeat split; first [assumption | reflexivity].
Qed.
Print Assumptions data_stream_parse_micro.

(* ------------------------------------------------------------------------------------------ *)
(* 12. the hypotheses are satisfiable: "01234567" + "AC-42" in 1-L, and "123" in M1             *)
(* ------------------------------------------------------------------------------------------ *)
Definition ex_num : segment * list Z :=
  let d := [48; 49; 50; 51; 52; 53; 54; 55] in
  ({| s_bits := pack_numeric (S (List.length d)) d; s_count := 8; s_mode := 1; s_enc := None |}, d).
Definition ex_aln : segment * list Z :=
  let d := [65; 67; 45; 52; 50] in
  ({| s_bits := pack_alnum d; s_count := 5; s_mode := 2; s_enc := None |}, d).

Lemma ex_num_ok : seg_of_data (fst ex_num) (snd ex_num).
Proof.
  split; [reflexivity|]. split; [reflexivity|]. left. split; [reflexivity|].
  cbn [ex_num snd]. repeat (constructor; [lia|]). constructor.
Qed.
Lemma ex_aln_ok : seg_of_data (fst ex_aln) (snd ex_aln).
Proof.
  split; [reflexivity|]. split; [reflexivity|]. right; left. split; [reflexivity|].
  cbn [ex_aln snd]. repeat (constructor; [apply is_alnum_char_In; reflexivity|]). constructor.
Qed.

Example parse_example_qr :
  exists stream tail,
    write_segments (map fst [ex_num; ex_aln]) None (qr_range 1) false = Ok stream /\
    iso_pad 1 152 stream = stream ++ tail /\
    parse_qr (S (List.length (iso_pad 1 152 stream))) 1 None (iso_pad 1 152 stream) []
    = Some (expected_dsegs false [ex_num; ex_aln], tail).
Proof.
  destruct (write_segments (map fst [ex_num; ex_aln]) None (qr_range 1) false) as [stream|e] eqn:Hws.
  2:{ vm_compute in Hws. discriminate Hws. }
  assert (Hlen : lenZ stream <= 152).
  { vm_compute in Hws. injection Hws as <-. vm_compute. discriminate. }
  assert (HF : Forall (fun p => seg_of_data (fst p) (snd p)) [ex_num; ex_aln]).
  { constructor; [exact ex_num_ok|]. constructor; [exact ex_aln_ok|]. constructor. }
  assert (Hcap : spec_capacity 1 (Some 1) = Some 152) by reflexivity.
  assert (Hv : 1 <= 1 <= 40) by lia.
  destruct (parse_symbol_stream_qr 1 (Some 1) 152 false [ex_num; ex_aln] stream Hv Hcap HF Hws Hlen
              (iso_pad 1 152 stream) (or_intror eq_refl)) as (tail & Ht & Hp).
  exists stream, tail. repeat split; assumption.
Qed.

Example parse_example_m1 :
  let d := [49; 50; 51] in
  let s := {| s_bits := pack_numeric (S (List.length d)) d; s_count := 3; s_mode := 1; s_enc := None |} in
  parse_micro 21 (-3) (iso_pad (-3) 20 (bits_of 3 3 ++ s_bits s)) []
  = Some ([{| d_mode := DNumeric; d_eci := None; d_count := 3; d_bytes := d |}],
          [false; false; false; false; false; false; false]).
Proof. vm_compute. reflexivity. Qed.
