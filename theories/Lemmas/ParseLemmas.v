(* C01, layer 2 / C13 last sentence: the reference decoder's segment parser (Ref/Decoder.v: parse_qr,
   parse_micro) inverts the model's segment writer (Model/Stream.v: write_segment, Model/Encode.v:
   write_segments) followed by the ISO terminator / padding (Ref/Spec.v: iso_pad, iso_pad_kf), for
   contents of unbounded length; and the parser stops exactly at the end of the last segment. *)
From Coq Require Import String.
From Coq Require Import ZArith List Bool Lia ZifyBool.
From Segno Require Import Base.PyLite Ref.IsoData Ref.Decoder Ref.Spec.
From Segno Require Import Model.Bits Model.Segment Model.Version Model.Stream Model.Encode.
From Segno Require Import Lemmas.PackLemmas Lemmas.PadLemmas.
Import ListNotations.
Open Scope Z_scope.
Ltac Zify.zify_post_hook ::= Z.to_euclidean_division_equations.

(* ------------------------------------------------------------------------------------------ *)
(* 0. small facts about bit lists                                                             *)
(* ------------------------------------------------------------------------------------------ *)
Lemma bits_of_aux_zero k : bits_of_aux k 0 = repeat false k.
Proof. induction k as [|k IH]; cbn [bits_of_aux repeat]; [reflexivity|]. now rewrite Z.testbit_0_l, IH. Qed.
Lemma zeros_bits_of n : repeat false (Z.to_nat n) = bits_of 0 n.
Proof. unfold bits_of. symmetry. apply bits_of_aux_zero. Qed.

Lemma repeat_false_split a b : 0 <= a -> 0 <= b ->
  repeat false (Z.to_nat (a + b)) = bits_of 0 a ++ repeat false (Z.to_nat b).
Proof. intros Ha Hb. rewrite Z2Nat.inj_add by lia. rewrite repeat_app, zeros_bits_of. reflexivity. Qed.

Lemma pow2_pos n : 0 <= n -> 0 < 2 ^ n.
Proof. intros Hn. apply Z.pow_pos_nonneg; lia. Qed.

(* take on a block of zeros followed by anything *)
Lemma take_zeros n k more : 0 <= n <= k ->
  take n (repeat false (Z.to_nat k) ++ more) = Some (0, repeat false (Z.to_nat (k - n)) ++ more).
Proof.
  intros H. replace k with (n + (k - n)) at 1 by lia.
  rewrite repeat_false_split by lia. rewrite <- app_assoc.
  apply take_bits_of; [lia|]. pose proof (pow2_pos n). lia.
Qed.
Lemma take_short {A} n (bs : list bool) : lenZ bs < n -> take n bs = None.
Proof. intros H. unfold take. destruct (lenZ bs <? n) eqn:E; [reflexivity | lia]. Qed.

Lemma bits_of_8_head n : 0 <= n < 128 -> exists t, bits_of n 8 = false :: t.
Proof.
  intros Hn. unfold bits_of. change (Z.to_nat 8) with 8%nat. cbn [bits_of_aux].
  change (Z.of_nat 7) with 7. eexists. f_equal.
  apply Z.testbit_false; [lia|]. change (2 ^ 7) with 128. lia.
Qed.

(* ------------------------------------------------------------------------------------------ *)
(* 1. segments and the byte strings they encode                                               *)
(* ------------------------------------------------------------------------------------------ *)
Definition seg_valid (mode : Z) (data : list Z) : Prop :=
  (mode = 1 /\ Forall (fun d => 48 <= d <= 57) data) \/
  (mode = 2 /\ Forall (fun b => In b ALPHANUMERIC_CHARS) data) \/
  (mode = 4 /\ Forall (fun b => 0 <= b < 256) data) \/
  (mode = 8 /\ Forall (fun b => 0 <= b < 256) data /\ all_pairs kanji_pair data = true) \/
  (mode = 13 /\ Forall (fun b => 0 <= b < 256) data /\ all_pairs hanzi_pair data = true).

(* a segment together with the byte string it encodes *)
Definition seg_of_data (s : segment) (data : list Z) : Prop :=
  pack_mode (s_mode s) data = Ok (s_bits s) /\ s_count s = count_mode (s_mode s) data /\
  seg_valid (s_mode s) data.

Definition dmode_of (m : Z) : option dmode :=
  if m =? 1 then Some DNumeric else if m =? 2 then Some DAlnum else if m =? 4 then Some DByte
  else if m =? 8 then Some DKanji else if m =? 13 then Some DHanzi else None.

Lemma dmode_of_inv mode m : dmode_of mode = Some m ->
  (mode = 1 /\ m = DNumeric) \/ (mode = 2 /\ m = DAlnum) \/ (mode = 4 /\ m = DByte) \/
  (mode = 8 /\ m = DKanji) \/ (mode = 13 /\ m = DHanzi).
Proof.
  unfold dmode_of. intros H.
  destruct (mode =? 1) eqn:E1; [injection H as <-; left; lia|].
  destruct (mode =? 2) eqn:E2; [injection H as <-; right; left; lia|].
  destruct (mode =? 4) eqn:E3; [injection H as <-; right; right; left; lia|].
  destruct (mode =? 8) eqn:E4; [injection H as <-; right; right; right; left; lia|].
  destruct (mode =? 13) eqn:E5; [injection H as <-; right; right; right; right; lia|].
  discriminate H.
Qed.
Lemma mode_key_dmode_of mode m : dmode_of mode = Some m -> mode_key m = mode.
Proof. intros H. apply dmode_of_inv in H. destruct H as [[-> ->]|[[-> ->]|[[-> ->]|[[-> ->]|[-> ->]]]]]; reflexivity. Qed.

(* the header decision of write_segment *)
Definition has_eci (eci : bool) (s : segment) : bool :=
  eci && (s_mode s =? MODE_BYTE) && negb (enc_is_default (s_enc s)).
Definition eci_opt (s : segment) : option Z :=
  match eci_number (s_enc s) with Ok n => Some n | Err _ => None end.

Definition expected_dseg (eci : bool) (s : segment) (data : list Z) (eci_no : option Z) : dsegment :=
  {| d_mode := match dmode_of (s_mode s) with Some m => m | None => DByte end;
     d_eci := if has_eci eci s then eci_no else None;
     d_count := s_count s; d_bytes := data |}.

(* count indicator length as a total function (0 where the table has no entry) *)
Definition cci_w (mode r : Z) : Z := match cci_length mode r with Ok w => w | Err _ => 0 end.

(* payload: reader inverts packer, by mode *)
Lemma seg_payload s data : seg_of_data s data ->
  exists m, dmode_of (s_mode s) = Some m /\
    lenZ (s_bits s) = payload_bits (s_mode s) (s_count s) /\
    forall rest, read_payload m (s_count s) (s_bits s ++ rest) = Some (data, rest).
Proof.
  intros (Hp & Hc & Hv). rewrite Hc.
  destruct Hv as [[Hm HF]|[[Hm HF]|[[Hm HF]|[[Hm [HF HP]]|[Hm [HF HP]]]]]]; rewrite Hm in *.
  - exists DNumeric. change (pack_mode 1 data) with (Ok (pack_numeric (S (List.length data)) data)) in Hp.
    injection Hp as <-. change (count_mode 1 data) with (lenZ data).
    split; [reflexivity|]. split; [apply numeric_length|]. intros rest. now apply numeric_roundtrip.
  - exists DAlnum. change (pack_mode 2 data) with (Ok (pack_alnum data)) in Hp.
    injection Hp as <-. change (count_mode 2 data) with (lenZ data).
    split; [reflexivity|]. split; [apply alnum_length|]. intros rest. now apply alnum_roundtrip.
  - exists DByte. change (pack_mode 4 data) with (Ok (flat_map (fun b => bits_of b 8) data)) in Hp.
    injection Hp as <-. change (count_mode 4 data) with (lenZ data).
    split; [reflexivity|]. split; [apply byte_length|]. intros rest. now apply byte_roundtrip.
  - exists DKanji. change (pack_mode 8 data) with (pack_kanji data) in Hp.
    change (count_mode 8 data) with (lenZ data / 2).
    destruct (kanji_roundtrip data HF HP) as (bs & Hbs & Hlen & _ & Hrt).
    rewrite Hp in Hbs. injection Hbs as <-.
    split; [reflexivity|]. split; [rewrite payload_bits_13 by (left; reflexivity); exact Hlen | exact Hrt].
  - exists DHanzi. change (pack_mode 13 data) with (pack_hanzi data) in Hp.
    change (count_mode 13 data) with (lenZ data / 2).
    destruct (hanzi_roundtrip data HF HP) as (bs & Hbs & Hlen & _ & Hrt).
    rewrite Hp in Hbs. injection Hbs as <-.
    split; [reflexivity|]. split; [rewrite payload_bits_13 by (right; reflexivity); exact Hlen | exact Hrt].
Qed.

(* count indicator tables: the model's lookup and the decoder's lookup agree *)
Lemma cci_length_cci mode r w m : dmode_of mode = Some m -> cci_length mode r = Ok w -> cci m r = Some w.
Proof.
  intros Hm H. unfold cci. rewrite (mode_key_dmode_of mode m Hm).
  unfold cci_length, getZ in H.
  destruct (assocZ mode CHAR_COUNT_INDICATOR_LENGTH) as [row|]; [|discriminate H].
  cbn [bind] in H. destruct (assocZ r row) as [x|]; [|discriminate H]. congruence.
Qed.

Lemma cci_table_fin :
  forallb (fun mode => forallb (fun r =>
     match cci_length mode r with Ok w => (3 <=? w) && (w <=? 16) | Err _ => true end)
     (zrange (-3) 4)) [1; 2; 4; 8; 13] = true.
Proof. vm_compute. reflexivity. Qed.

Lemma cci_length_bounds mode r w m : dmode_of mode = Some m -> -3 <= r <= 3 ->
  cci_length mode r = Ok w -> 3 <= w <= 16.
Proof.
  intros Hm Hr H.
  assert (Hin : In mode [1; 2; 4; 8; 13]).
  { apply dmode_of_inv in Hm. cbn [In]. lia. }
  pose proof (proj1 (forallb_forall _ _) cci_table_fin mode Hin) as F. cbv beta in F.
  pose proof (proj1 (forallb_forall _ _) F r (zrange_In (-3) 4 r ltac:(lia))) as G. cbv beta in G.
  rewrite H in G. lia.
Qed.

Lemma qr_range_bounds v : 1 <= qr_range v <= 3.
Proof. unfold qr_range. destruct (v <=? 9); [lia|]. destruct (v <=? 26); lia. Qed.

Lemma version_range_qr v : 1 <= v <= 40 -> version_range v = Ok (qr_range v).
Proof.
  intros Hv. unfold version_range, qr_range, VERSION_RANGE_01_09, VERSION_RANGE_10_26, VERSION_RANGE_27_40.
  destruct ((0 <? v) && (v <? 10)) eqn:E1.
  { destruct (v <=? 9) eqn:F1; [reflexivity | lia]. }
  destruct ((9 <? v) && (v <? 27)) eqn:E2.
  { destruct (v <=? 9) eqn:F1; [lia|]. destruct (v <=? 26) eqn:F2; [reflexivity | lia]. }
  destruct ((26 <? v) && (v <? 41)) eqn:E3; [|lia].
  destruct (v <=? 9) eqn:F1; [lia|]. destruct (v <=? 26) eqn:F2; [lia | reflexivity].
Qed.

(* every ECI assignment number of the table fits the one-byte designator 0bbbbbbb *)
Lemma assocS_Forall {A} (P : A -> Prop) k : forall l x,
  Forall (fun p => P (snd p)) l -> assocS k l = Some x -> P x.
Proof.
  induction l as [|[k' y] l IH]; intros x HF H; cbn [assocS] in H; [discriminate H|].
  apply Forall_cons_iff in HF as [Hy HF].
  destruct (String.eqb k k'); [injection H as <-; exact Hy | now apply IH].
Qed.
Lemma eci_table_small : Forall (fun p : String.string * Z => 0 <= snd p < 128) ECI_ASSIGNMENT_NUM.
Proof. unfold ECI_ASSIGNMENT_NUM. repeat (constructor; [cbn [snd]; lia|]). constructor. Qed.
Lemma eci_number_bound e n : eci_number e = Ok n -> 0 <= n < 128.
Proof.
  unfold eci_number. intros H. destruct e as [x|]; [|discriminate H].
  destruct (e_canon x) as [c|]; [|discriminate H].
  destruct (assocS c ECI_ASSIGNMENT_NUM) as [k|] eqn:E; [|discriminate H]. injection H as <-.
  exact (assocS_Forall (fun z => 0 <= z < 128) c _ k eci_table_small E).
Qed.
