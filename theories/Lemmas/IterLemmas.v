(* Properties C09/C10/C11 of the model of segno.utils (Model/Iter.v):
   matrix_iter / matrix_iter_verbose produce exactly the pixel grid of Ref/Pixel.v for every size, scale >= 1
   and border >= 0; matrix_to_lines emits exactly the maximal horizontal runs of dark modules. *)
From Coq Require Import ZArith List Bool Lia ZifyBool QArith.
From Coq Require Import Sorted.
From Segno Require Import Base.PyLite Ref.IsoData Ref.Pixel Model.Iter.
Import ListNotations.
Open Scope Z_scope.
Ltac Zify.zify_post_hook ::= Z.to_euclidean_division_equations.

(* ------------------------------------------------------------------------------------------------ *)
(** * 0. List lemmas: [repeat_each], [zrange] *)

Lemma repeat_each_cons {A} s (x : A) l :
  repeat_each s (x :: l) = repeat x (Z.to_nat s) ++ repeat_each s l.
Proof. reflexivity. Qed.

Lemma repeat_each_length {A} s (l : list A) :
  List.length (repeat_each s l) = (Z.to_nat s * List.length l)%nat.
Proof.
  induction l as [|x l IH]; [cbn; lia|].
  rewrite repeat_each_cons, app_length, repeat_length, IH. cbn [List.length]. lia.
Qed.

Lemma nth_repeat_lt {A} (x d : A) n : forall k, (k < n)%nat -> nth k (repeat x n) d = x.
Proof.
  induction n as [|n IH]; intros [|k] Hk; cbn [repeat nth]; try lia; auto. apply IH; lia.
Qed.

(* key lemma: element k of the stretched list is element k / s of the original *)
Lemma nth_repeat_each {A} (s : Z) (l : list A) d :
  1 <= s -> forall k, (k < Z.to_nat s * List.length l)%nat ->
  nth k (repeat_each s l) d = nth (k / Z.to_nat s) l d.
Proof.
  intros Hs. set (n := Z.to_nat s). assert (Hn : (1 <= n)%nat) by lia.
  induction l as [|x l IH]; intros k Hk.
  - cbn [List.length] in Hk. lia.
  - rewrite repeat_each_cons. fold n. cbn [List.length] in Hk.
    destruct (Nat.ltb_spec k n) as [Hlt|Hge].
    + rewrite app_nth1 by (rewrite repeat_length; lia).
      rewrite nth_repeat_lt by lia. rewrite Nat.div_small by lia. reflexivity.
    + rewrite app_nth2 by (rewrite repeat_length; lia). rewrite repeat_length.
      rewrite IH by lia.
      assert (Hd : (k / n = S ((k - n) / n))%nat).
      { replace k with ((k - n) + 1 * n)%nat at 1 by lia. rewrite Nat.div_add by lia. lia. }
      rewrite Hd. reflexivity.
Qed.

Lemma zrange_length a b : List.length (zrange a b) = Z.to_nat (b - a).
Proof. unfold zrange. apply zrange_aux_length. Qed.

Lemma nth_zrange_aux n : forall a k d, (k < n)%nat -> nth k (zrange_aux n a) d = a + Z.of_nat k.
Proof.
  induction n as [|n IH]; intros a [|k] d Hk; cbn [zrange_aux nth]; try lia.
  rewrite IH by lia. lia.
Qed.

Lemma nth_map_zrange {B} (f : Z -> B) a b k d :
  (k < Z.to_nat (b - a))%nat -> nth k (map f (zrange a b)) d = f (a + Z.of_nat k).
Proof.
  intros Hk. rewrite nth_indep with (d' := f 0) by (rewrite map_length, zrange_length; lia).
  rewrite map_nth. f_equal. unfold zrange. apply nth_zrange_aux. exact Hk.
Qed.

(* stretching a list indexed by lo..hi-1 by s = indexing 0..(hi-lo)*s-1 through division by s *)
Lemma repeat_each_map_zrange {B} (d : B) (g : Z -> B) s lo hi :
  1 <= s -> lo <= hi ->
  repeat_each s (map g (zrange lo hi)) = map (fun x => g (x / s + lo)) (zrange 0 ((hi - lo) * s)).
Proof.
  intros Hs Hlh.
  assert (Hlen : (Z.to_nat s * Z.to_nat (hi - lo))%nat = Z.to_nat ((hi - lo) * s - 0)).
  { rewrite Z.sub_0_r, Z2Nat.inj_mul by lia. lia. }
  apply nth_ext with (d := d) (d' := d).
  - rewrite repeat_each_length, !map_length, !zrange_length. exact Hlen.
  - intros k Hk. rewrite repeat_each_length, map_length, zrange_length in Hk.
    assert (Hq : (k / Z.to_nat s < Z.to_nat (hi - lo))%nat).
    { apply Nat.div_lt_upper_bound; [lia|exact Hk]. }
    rewrite nth_repeat_each by first [lia | rewrite map_length, zrange_length; exact Hk].
    rewrite nth_map_zrange by exact Hq. rewrite nth_map_zrange by lia.
    cbv beta. f_equal. rewrite Nat2Z.inj_div, Z2Nat.id by lia.
    rewrite Z.add_0_l. apply Z.add_comm.
Qed.

(* a rectangular grid given by a function of (row, column) *)
Definition gridZ (F : Z -> Z -> Z) (n m : Z) : list (list Z) :=
  map (fun y => map (fun x => F y x) (zrange 0 m)) (zrange 0 n).

Lemma gridZ_length F n m : 0 <= n -> lenZ (gridZ F n m) = n.
Proof. intros Hn. unfold lenZ, gridZ. rewrite map_length, zrange_length. lia. Qed.

Lemma gridZ_row_length F n m row : 0 <= m -> In row (gridZ F n m) -> lenZ row = m.
Proof.
  intros Hm Hin. unfold gridZ in Hin. apply in_map_iff in Hin. destruct Hin as [y [<- _]].
  unfold lenZ. rewrite map_length, zrange_length. lia.
Qed.

Lemma gridZ_nth F n m x y :
  0 <= y < n -> 0 <= x < m ->
  nth (Z.to_nat x) (nth (Z.to_nat y) (gridZ F n m) []) 0 = F y x.
Proof.
  intros Hy Hx. unfold gridZ.
  rewrite nth_map_zrange by lia. rewrite nth_map_zrange by lia.
  f_equal; lia.
Qed.

(* scale-and-border loop of matrix_iter / matrix_iter_verbose, for an arbitrary cell function *)
Lemma grid_eq (f : Z -> Z -> Z) w h s b :
  1 <= s -> 0 <= w + 2 * b -> 0 <= h + 2 * b ->
  repeat_each s
    (map (fun i => repeat_each s (map (fun j => f i j) (zrange (- b) (w + b)))) (zrange (- b) (h + b)))
  = gridZ (fun y x => f (y / s - b) (x / s - b)) ((h + 2 * b) * s) ((w + 2 * b) * s).
Proof.
  intros Hs Hw Hh. unfold gridZ.
  rewrite (repeat_each_map_zrange (@nil Z)) by lia.
  replace (h + b - - b) with (h + 2 * b) by lia.
  apply map_ext. intros y.
  rewrite (repeat_each_map_zrange 0) by lia.
  replace (w + b - - b) with (w + 2 * b) by lia.
  apply map_ext. intros x. f_equal; lia.
Qed.

(* ------------------------------------------------------------------------------------------------ *)
(** * 1. matrix_iter core: [iter_rows] is the pixel grid (C09, C11) *)

Theorem iter_rows_is_pixel_grid : forall matrix size scale border,
  0 < size -> 1 <= scale -> 0 <= border ->
  iter_rows matrix size size scale border = pixel_grid matrix size scale border.
Proof.
  intros matrix size scale border Hsize Hs Hb.
  unfold iter_rows, pixel_grid, image_side.
  exact (grid_eq (fun i j => if (0 <=? i) && (i <? size) && (0 <=? j) && (j <? size)
                             then mcell matrix i j else 0)
                 size size scale border Hs ltac:(lia) ltac:(lia)).
Qed.
Print Assumptions iter_rows_is_pixel_grid.

Lemma pixel_grid_is_gridZ matrix size scale border :
  pixel_grid matrix size scale border
  = gridZ (fun y x => pixel_spec matrix size scale border x y)
          (image_side size scale border) (image_side size scale border).
Proof. reflexivity. Qed.

Theorem iter_rows_length : forall matrix size scale border,
  0 < size -> 1 <= scale -> 0 <= border ->
  lenZ (iter_rows matrix size size scale border) = (size + 2 * border) * scale.
Proof.
  intros matrix size scale border Hsize Hs Hb.
  rewrite iter_rows_is_pixel_grid, pixel_grid_is_gridZ by assumption.
  apply gridZ_length. unfold image_side. nia.
Qed.

Theorem iter_rows_row_length : forall matrix size scale border row,
  0 < size -> 1 <= scale -> 0 <= border ->
  In row (iter_rows matrix size size scale border) -> lenZ row = (size + 2 * border) * scale.
Proof.
  intros matrix size scale border row Hsize Hs Hb.
  rewrite iter_rows_is_pixel_grid, pixel_grid_is_gridZ by assumption.
  apply gridZ_row_length. unfold image_side. nia.
Qed.

Theorem iter_rows_pixel : forall matrix size scale border x y,
  0 < size -> 1 <= scale -> 0 <= border ->
  0 <= x < image_side size scale border -> 0 <= y < image_side size scale border ->
  nth (Z.to_nat x) (nth (Z.to_nat y) (iter_rows matrix size size scale border) []) 0
  = pixel_spec matrix size scale border x y.
Proof.
  intros matrix size scale border x y Hsize Hs Hb Hx Hy.
  rewrite iter_rows_is_pixel_grid, pixel_grid_is_gridZ by assumption.
  apply (gridZ_nth (fun y x => pixel_spec matrix size scale border x y)); assumption.
Qed.
Print Assumptions iter_rows_pixel.

(* ------------------------------------------------------------------------------------------------ *)
(** * 2. matrix_iter with its argument checks (C11: any scale / border, only ValueError) *)

(* the model's default border uses [17 <? width], the specification [size <? 21]; they agree on every
   symbol size (11, 13, 15, 17, 21, 25, ..., 177) but not on 18..20 *)
Lemma default_border_agrees size :
  size <= 17 \/ 21 <= size -> get_default_border_size size size = default_border size.
Proof.
  intros H. unfold get_default_border_size, default_border. rewrite Z.eqb_refl, andb_true_r.
  destruct (17 <? size) eqn:E1; destruct (size <? 21) eqn:E2; try reflexivity; lia.
Qed.
Example default_border_differs_18 : get_default_border_size 18 18 = 4 /\ default_border 18 = 2.
Proof. vm_compute. split; reflexivity. Qed.

Definition is_integral (q : Q) : Prop := exists z : Z, (q == inject_Z z)%Q.
(* the border is given and is negative or not an integer *)
Definition border_bad (border : option pynum) : Prop :=
  match border with
  | None => False
  | Some n => ~ is_integral (q_of n) \/ (q_of n < 0)%Q
  end.
(* the integer a valid border stands for *)
Definition border_denotes (size : Z) (border : option pynum) (b : Z) : Prop :=
  match border with
  | None => b = default_border size
  | Some n => (q_of n == inject_Z b)%Q
  end.

Lemma py_int_integral n z : (q_of n == inject_Z z)%Q -> py_int n = z.
Proof.
  destruct n as [z0|q]; cbn [q_of py_int]; intros H.
  - apply inject_Z_injective. exact H.
  - unfold Qeq in H. cbn [inject_Z Qnum Qden] in H. rewrite Z.mul_1_r in H. rewrite H.
    apply Z.quot_mul. discriminate.
Qed.

Lemma check_valid_border_spec border :
  (border_bad border /\ check_valid_border border = Err ValueError)
  \/ (~ border_bad border /\ check_valid_border border = Ok tt).
Proof.
  destruct border as [n|]; cbn [border_bad check_valid_border]; [|right; split; [tauto|reflexivity]].
  unfold q_ltz.
  destruct (Qeq_bool (inject_Z (py_int n)) (q_of n)) eqn:E1.
  - apply Qeq_bool_iff in E1.
    assert (Hint : is_integral (q_of n)) by (exists (py_int n); symmetry; exact E1).
    destruct (Qle_bool (inject_Z 0) (q_of n)) eqn:E2; cbn [negb orb].
    + right. split; [|reflexivity]. apply Qle_bool_iff in E2.
      intros [Hn|Hlt]; [tauto|]. apply (Qlt_not_le _ _ Hlt). exact E2.
    + left. split; [|reflexivity]. right. apply Qnot_le_lt. intros Hle.
      apply Qle_bool_iff in Hle. unfold inject_Z in E2, Hle. rewrite Hle in E2. discriminate.
  - cbn [negb orb]. left. split; [|reflexivity]. left. intros [z Hz].
    apply Qeq_bool_neq in E1. apply E1. rewrite (py_int_integral n z Hz). symmetry. exact Hz.
Qed.

Lemma check_valid_scale_spec s :
  check_valid_scale (PInt s) = if s <? 1 then Err ValueError else Ok tt.
Proof.
  unfold check_valid_scale, q_lebz. cbn [q_of].
  destruct (Qle_bool (inject_Z s) (inject_Z 0)) eqn:E; destruct (s <? 1) eqn:E2; try reflexivity; exfalso.
  - apply Qle_bool_iff in E. rewrite <- Zle_Qle in E. lia.
  - assert (H : Qle_bool (inject_Z s) (inject_Z 0) = true) by (apply Qle_bool_iff; rewrite <- Zle_Qle; lia).
    rewrite H in E. discriminate.
Qed.

Lemma border_denotes_nonneg size border b :
  ~ border_bad border -> border_denotes size border b -> 0 <= b.
Proof.
  destruct border as [n|]; cbn [border_bad border_denotes]; intros Hgood Hb.
  - destruct (Z_lt_le_dec b 0) as [Hneg|Hok]; [exfalso|exact Hok].
    apply Hgood. right. rewrite Hb. rewrite Zlt_Qlt in Hneg. exact Hneg.
  - subst b. unfold default_border. destruct (size <? 21); lia.
Qed.

(* NOTE (model vs. utils.py): the model converts an accepted border with [py_int], so an integral float such
   as 2.0 behaves like 2.  In utils.py check_valid_border(2.0) passes as well, but the subsequent
   range(-border, ...) raises TypeError ('float' object cannot be interpreted as an integer).  The theorem
   below is therefore about the documented domain (border None or int) plus the model's reading of
   integral floats. *)
Theorem matrix_iter_spec : forall matrix size (scale : pynum) (border : option pynum),
  0 < size -> (size <= 17 \/ 21 <= size) ->
  (border_bad border \/ py_int scale < 1 ->
     matrix_iter matrix size size scale border = Err ValueError)
  /\
  (~ border_bad border -> 1 <= py_int scale ->
     exists b, border_denotes size border b /\ 0 <= b /\
       matrix_iter matrix size size scale border = Ok (pixel_grid matrix size (py_int scale) b)).
Proof.
  intros matrix size scale border Hsize Hsz. unfold matrix_iter.
  destruct (check_valid_border_spec border) as [[Hbad Hc]|[Hgood Hc]]; rewrite Hc; cbn [bind].
  - split; [reflexivity | tauto].
  - rewrite check_valid_scale_spec. destruct (py_int scale <? 1) eqn:Es; cbn [bind].
    + split; [reflexivity | lia].
    + split; [intros [Hb|Hlt]; [tauto | lia]|].
      intros _ Hs.
      set (b := get_border size size (border_z border)).
      assert (Hden : border_denotes size border b).
      { subst b. destruct border as [n|]; cbn [border_denotes border_z get_border].
        - destruct (Qeq_bool (inject_Z (py_int n)) (q_of n)) eqn:E1.
          + apply Qeq_bool_iff in E1. symmetry. exact E1.
          + exfalso. apply Hgood. cbn [border_bad]. left. intros [z Hz].
            apply Qeq_bool_neq in E1. apply E1. rewrite (py_int_integral n z Hz). symmetry. exact Hz.
        - apply default_border_agrees. exact Hsz. }
      assert (Hb0 : 0 <= b) by (eapply border_denotes_nonneg; eassumption).
      exists b. split; [exact Hden|]. split; [exact Hb0|].
      f_equal. apply iter_rows_is_pixel_grid; lia.
Qed.
Print Assumptions matrix_iter_spec.

(* ValueError exactly in the two documented situations *)
Corollary matrix_iter_error_iff : forall matrix size scale border,
  0 < size -> (size <= 17 \/ 21 <= size) ->
  (matrix_iter matrix size size scale border = Err ValueError <-> border_bad border \/ py_int scale < 1).
Proof.
  intros matrix size scale border Hsize Hsz.
  destruct (matrix_iter_spec matrix size scale border Hsize Hsz) as [Herr Hok].
  split; [|exact Herr]. intros Hres.
  destruct (check_valid_border_spec border) as [[Hbad _]|[Hgood _]]; [left; exact Hbad|].
  destruct (Z_lt_le_dec (py_int scale) 1) as [Hlt|Hge]; [right; exact Hlt|].
  destruct (Hok Hgood Hge) as [b [_ [_ Hb]]]. rewrite Hb in Hres. discriminate.
Qed.

(* never any other exception, for any width/height/scale/border *)
Theorem matrix_iter_only_ValueError : forall matrix width height scale border e,
  matrix_iter matrix width height scale border = Err e -> e = ValueError.
Proof.
  intros matrix width height scale border e. unfold matrix_iter.
  destruct (check_valid_border_spec border) as [[_ Hc]|[_ Hc]]; rewrite Hc; cbn [bind].
  - intros H. inversion H. reflexivity.
  - rewrite check_valid_scale_spec. destruct (py_int scale <? 1); cbn [bind]; intros H; inversion H. reflexivity.
Qed.
Print Assumptions matrix_iter_only_ValueError.

(* ------------------------------------------------------------------------------------------------ *)
(** * 3. matrix_iter_verbose core: same geometry, cell function [get_bit] *)

Definition verbose_spec (m am : list (list Z)) (size s b x y : Z) : Z :=
  get_bit (mcell m) (mcell am) size size true (size <? 21) (y / s - b) (x / s - b).

Theorem iter_verbose_rows_is_grid : forall m am size s b,
  0 < size -> 1 <= s -> 0 <= b ->
  iter_verbose_rows m am size size s b
  = gridZ (fun y x => verbose_spec m am size s b x y) (image_side size s b) (image_side size s b).
Proof.
  intros m am size s b Hsize Hs Hb.
  unfold iter_verbose_rows, image_side, verbose_spec. rewrite Z.eqb_refl. cbn [andb].
  exact (grid_eq (fun i j => get_bit (mcell m) (mcell am) size size true (size <? 21) i j)
                 size size s b Hs ltac:(lia) ltac:(lia)).
Qed.

Theorem iter_verbose_rows_length : forall m am size s b,
  0 < size -> 1 <= s -> 0 <= b ->
  lenZ (iter_verbose_rows m am size size s b) = (size + 2 * b) * s.
Proof.
  intros m am size s b Hsize Hs Hb. rewrite iter_verbose_rows_is_grid by assumption.
  apply gridZ_length. unfold image_side. nia.
Qed.

Theorem iter_verbose_rows_row_length : forall m am size s b row,
  0 < size -> 1 <= s -> 0 <= b ->
  In row (iter_verbose_rows m am size size s b) -> lenZ row = (size + 2 * b) * s.
Proof.
  intros m am size s b row Hsize Hs Hb. rewrite iter_verbose_rows_is_grid by assumption.
  apply gridZ_row_length. unfold image_side. nia.
Qed.

Theorem iter_verbose_rows_pixel : forall m am size s b x y,
  0 < size -> 1 <= s -> 0 <= b ->
  0 <= x < (size + 2 * b) * s -> 0 <= y < (size + 2 * b) * s ->
  nth (Z.to_nat x) (nth (Z.to_nat y) (iter_verbose_rows m am size size s b) []) 0
  = get_bit (mcell m) (mcell am) size size true (size <? 21) (y / s - b) (x / s - b).
Proof.
  intros m am size s b x y Hsize Hs Hb Hx Hy. rewrite iter_verbose_rows_is_grid by assumption.
  apply (gridZ_nth (fun y x => verbose_spec m am size s b x y)); assumption.
Qed.
Print Assumptions iter_verbose_rows_pixel.

(* ------------------------------------------------------------------------------------------------ *)
(** * 4. matrix_to_lines (C10): the emitted segments are exactly the maximal runs of dark modules *)

(* dark = non-zero, as in the Python truth test; nothing below needs the cells to be 0/1 *)
Definition dark (b : Z) : bool := negb (b =? 0).

(* [l] covers the point with abscissa [p] on the horizontal at height [yy] (half-open: x1 <= p < x2) *)
Definition covers (l : line) (yy p : Q) : bool :=
  Qeq_bool (l_y l) yy && Qle_bool (l_x1 l) p && negb (Qle_bool (l_x2 l) p).
Definition cover_count (ls : list line) (yy p : Q) : nat :=
  List.length (filter (fun l => covers l yy p) ls).

(** ** Rational-arithmetic helpers *)

Lemma Qshift1 (x2 X : Q) (a : Z) :
  (x2 == X + inject_Z a)%Q -> (x2 + 1 == X + inject_Z (a + 1))%Q.
Proof. intros H. rewrite H, inject_Z_plus. change (inject_Z 1) with 1%Q. ring. Qed.

Lemma Qshift0 (x : Q) : (x == x + inject_Z 0)%Q.
Proof. change (inject_Z 0) with 0%Q. ring. Qed.

Lemma Qle_bool_shift (u v X : Q) (a c : Z) :
  (u == X + inject_Z a)%Q -> (v == X + inject_Z c)%Q -> Qle_bool u v = (a <=? c).
Proof.
  intros Hu Hv. apply eq_iff_eq_true.
  rewrite Qle_bool_iff, Z.leb_le, Hu, Hv, Qplus_le_r, <- Zle_Qle. reflexivity.
Qed.

Lemma Qrow_inj (y d : Q) (k1 k2 : Z) :
  ~ (d == 0)%Q -> (y + inject_Z k1 * d == y + inject_Z k2 * d)%Q -> k1 = k2.
Proof.
  intros Hd H. apply Qplus_inj_l in H. apply Qmult_inj_r in H; [|exact Hd].
  apply inject_Z_injective. exact H.
Qed.

Lemma covers_char l X a b c yy p :
  (l_x1 l == X + inject_Z a)%Q -> (l_x2 l == X + inject_Z b)%Q -> (l_y l == yy)%Q ->
  (p == X + inject_Z c)%Q -> covers l yy p = (a <=? c) && (c <? b).
Proof.
  intros H1 H2 Hy Hp. unfold covers.
  rewrite (proj2 (Qeq_bool_iff _ _) Hy).
  rewrite (Qle_bool_shift _ _ X a c H1 Hp), (Qle_bool_shift _ _ X b c H2 Hp).
  rewrite (Z.ltb_antisym b c). reflexivity.
Qed.

Lemma covers_wrong_y l yy p : ~ (l_y l == yy)%Q -> covers l yy p = false.
Proof.
  intros H. unfold covers. destruct (Qeq_bool (l_y l) yy) eqn:E; [|reflexivity].
  apply Qeq_bool_iff in E. contradiction.
Qed.

Lemma covers_true_iff l yy p :
  covers l yy p = true <-> ((l_y l == yy)%Q /\ (l_x1 l <= p)%Q /\ (p < l_x2 l)%Q).
Proof.
  unfold covers. rewrite !andb_true_iff, negb_true_iff, Qeq_bool_iff, Qle_bool_iff.
  split.
  - intros [[Hy H1] H2]. repeat split; try assumption. apply Qnot_le_lt. intros Hle.
    apply Qle_bool_iff in Hle. rewrite Hle in H2. discriminate.
  - intros [Hy [H1 H2]]. repeat split; try assumption.
    destruct (Qle_bool (l_x2 l) p) eqn:E; [|reflexivity].
    apply Qle_bool_iff in E. exfalso. exact (Qlt_not_le _ _ H2 E).
Qed.

(** ** Counting lemmas *)

Lemma cover_count_app a b yy p :
  cover_count (a ++ b) yy p = (cover_count a yy p + cover_count b yy p)%nat.
Proof. unfold cover_count. rewrite filter_app, app_length. reflexivity. Qed.

Lemma cover_count_nil yy p : cover_count [] yy p = 0%nat.
Proof. reflexivity. Qed.

Lemma cover_count_single l yy p : cover_count [l] yy p = Nat.b2n (covers l yy p).
Proof. unfold cover_count. cbn [filter]. destruct (covers l yy p); reflexivity. Qed.

Lemma cover_count_cons l ls yy p :
  cover_count (l :: ls) yy p = (Nat.b2n (covers l yy p) + cover_count ls yy p)%nat.
Proof. change (l :: ls) with ([l] ++ ls). rewrite cover_count_app, cover_count_single. reflexivity. Qed.

Lemma cover_count_zero ls yy p :
  (forall l, In l ls -> ~ (l_y l == yy)%Q) -> cover_count ls yy p = 0%nat.
Proof.
  induction ls as [|l ls IH]; intros H; [reflexivity|].
  rewrite cover_count_cons, IH by (intros l' Hl'; apply H; right; exact Hl').
  rewrite covers_wrong_y by (apply H; left; reflexivity). reflexivity.
Qed.

Lemma cover_count_pos ls yy p :
  (0 < cover_count ls yy p)%nat <-> exists l, In l ls /\ covers l yy p = true.
Proof.
  unfold cover_count. split.
  - intros H. destruct (filter (fun l => covers l yy p) ls) as [|l rest] eqn:E; [cbn in H; lia|].
    exists l. apply (filter_In (fun l => covers l yy p)). rewrite E. left. reflexivity.
  - intros [l Hl]. apply (filter_In (fun l => covers l yy p)) in Hl.
    destruct (filter (fun l => covers l yy p) ls); [destruct Hl | cbn; lia].
Qed.

(** ** One row: [lines_row] followed by the end-of-row emission *)

Definition close_row (res : list line * (Q * Q * Z)) (y : Q) : list line :=
  let '(ls, (x1, x2, lb)) := res in
  ls ++ (if negb (lb =? 0) then [{| l_x1 := x1; l_x2 := x2; l_y := y |}] else []).

Lemma close_row_nil x1 x2 lb y :
  close_row (lines_row [] x1 x2 lb y) y
  = if negb (lb =? 0) then [{| l_x1 := x1; l_x2 := x2; l_y := y |}] else [].
Proof. reflexivity. Qed.

(* light module, nothing pending *)
Lemma step_light_noemit r x1 x2 y :
  close_row (lines_row (0 :: r) x1 x2 0 y) y = close_row (lines_row r (x1 + 1)%Q (x2 + 1)%Q 0 y) y.
Proof.
  cbn [lines_row]. change (0 =? 0) with true. cbn [negb andb].
  destruct (lines_row r (x1 + 1)%Q (x2 + 1)%Q 0 y) as [ls [[u v] w]]. reflexivity.
Qed.

(* light module after a dark one (or at the very start, where last_bit = 1): the pending run is emitted *)
Lemma step_light_emit r x1 x2 lb y :
  lb <> 0 ->
  close_row (lines_row (0 :: r) x1 x2 lb y) y
  = {| l_x1 := x1; l_x2 := x2; l_y := y |} :: close_row (lines_row r (x2 + 1)%Q (x2 + 1)%Q 0 y) y.
Proof.
  intros Hlb. apply Z.eqb_neq in Hlb. cbn [lines_row]. rewrite Hlb. change (0 =? 0) with true.
  cbn [negb andb].
  destruct (lines_row r (x2 + 1)%Q (x2 + 1)%Q 0 y) as [ls [[u v] w]]. reflexivity.
Qed.

(* dark module: the run is extended *)
Lemma step_dark bit r x1 x2 lb y :
  bit <> 0 ->
  close_row (lines_row (bit :: r) x1 x2 lb y) y = close_row (lines_row r x1 (x2 + 1)%Q bit y) y.
Proof.
  intros Hb. apply Z.eqb_neq in Hb. cbn [lines_row]. rewrite Hb, andb_false_r.
  destruct (lines_row r x1 (x2 + 1)%Q bit y) as [ls [[u v] w]]. reflexivity.
Qed.

Lemma lenZ_cons {A} (a : A) l : lenZ (a :: l) = lenZ l + 1.
Proof. unfold lenZ. cbn [List.length]. lia. Qed.

(* column k of [row] exists and is dark *)
Definition row_dark (row : list Z) (k : Z) : bool :=
  (0 <=? k) && (k <? lenZ row) && dark (nth (Z.to_nat k) row 0).

Lemma row_dark_nil k : row_dark [] k = false.
Proof. unfold row_dark, lenZ. cbn [List.length]. lia. Qed.

Lemma row_dark_cons bit r k :
  row_dark (bit :: r) k = ((k =? 0) && dark bit) || (negb (k =? 0) && row_dark r (k - 1)).
Proof.
  unfold row_dark. rewrite lenZ_cons.
  destruct (Z_lt_le_dec k 0) as [Hneg|Hpos]; [lia|].
  destruct (Z.eq_dec k 0) as [->|Hk].
  - cbn [Z.to_nat nth]. unfold lenZ.
    destruct (dark bit); destruct (dark (nth (Z.to_nat (0 - 1)) r 0)); lia.
  - replace (Z.to_nat k) with (S (Z.to_nat (k - 1))) by lia. cbn [nth].
    destruct (dark bit); destruct (dark (nth (Z.to_nat (k - 1)) r 0)); lia.
Qed.

Lemma row_dark_true_nonneg row k : row_dark row k = true -> 0 <= k.
Proof. unfold row_dark. intros H. destruct (Z_lt_le_dec k 0) as [Hneg|Hpos]; [|exact Hpos]. lia. Qed.

Lemma row_dark_nth row c : 0 <= c -> row_dark row c = dark (nth (Z.to_nat c) row 0).
Proof.
  intros Hc. unfold row_dark. destruct (Z_lt_le_dec c (lenZ row)) as [Hlt|Hge].
  - destruct (dark (nth (Z.to_nat c) row 0)); lia.
  - rewrite nth_overflow by (unfold lenZ in Hge; lia). change (dark 0) with false. apply andb_false_r.
Qed.

(* Invariant of the generator: x1 = X + a1, x2 = X + a2, and when the last module was dark the pending run
   is [a1, a2).  The lines of the rest of the row cover the pending run and the dark cells still to come,
   each exactly once. *)
Lemma lines_row_cover row : forall X x1 x2 a1 a2 lb y yy p c,
  (x1 == X + inject_Z a1)%Q -> (x2 == X + inject_Z a2)%Q -> a1 <= a2 -> (lb = 0 -> a1 = a2) ->
  (y == yy)%Q -> (p == X + inject_Z c)%Q ->
  cover_count (close_row (lines_row row x1 x2 lb y) y) yy p
  = (Nat.b2n (dark lb && (a1 <=? c)%Z && (c <? a2)%Z) + Nat.b2n (row_dark row (c - a2)%Z))%nat.
Proof.
  induction row as [|bit r IH]; intros X x1 x2 a1 a2 lb y yy p c H1 H2 Hle Hinv Hy Hp.
  - rewrite close_row_nil, row_dark_nil. unfold dark. destruct (lb =? 0) eqn:Elb; cbn [negb andb].
    + rewrite cover_count_nil. reflexivity.
    + rewrite cover_count_single, (covers_char _ X a1 a2 c) by assumption. lia.
  - rewrite row_dark_cons. replace (c - a2 - 1) with (c - (a2 + 1)) by lia.
    destruct (Z.eq_dec bit 0) as [->|Hbit]; [destruct (Z.eq_dec lb 0) as [->|Hlb]|].
    + rewrite step_light_noemit.
      rewrite (IH X _ _ (a1 + 1) (a2 + 1) 0 y yy p c);
        [| apply Qshift1; exact H1 | apply Qshift1; exact H2 | lia | lia | exact Hy | exact Hp].
      change (dark 0) with false.
      destruct (row_dark r (c - (a2 + 1))) eqn:Erd; [apply row_dark_true_nonneg in Erd|]; lia.
    + rewrite step_light_emit by exact Hlb. rewrite cover_count_cons.
      rewrite (covers_char _ X a1 a2 c) by assumption.
      rewrite (IH X _ _ (a2 + 1) (a2 + 1) 0 y yy p c);
        [| apply Qshift1; exact H2 | apply Qshift1; exact H2 | lia | lia | exact Hy | exact Hp].
      change (dark 0) with false. unfold dark.
      destruct (row_dark r (c - (a2 + 1))) eqn:Erd; [apply row_dark_true_nonneg in Erd|]; lia.
    + rewrite step_dark by exact Hbit.
      rewrite (IH X _ _ a1 (a2 + 1) bit y yy p c);
        [| exact H1 | apply Qshift1; exact H2 | lia | lia | exact Hy | exact Hp].
      unfold dark.
      destruct (row_dark r (c - (a2 + 1))) eqn:Erd; [apply row_dark_true_nonneg in Erd|]; lia.
Qed.

Lemma lines_row_y row : forall x1 x2 lb y l,
  In l (close_row (lines_row row x1 x2 lb y) y) -> l_y l = y.
Proof.
  induction row as [|bit r IH]; intros x1 x2 lb y l Hin.
  - rewrite close_row_nil in Hin. destruct (negb (lb =? 0)); [|destruct Hin].
    destruct Hin as [<-|[]]. reflexivity.
  - destruct (Z.eq_dec bit 0) as [->|Hbit]; [destruct (Z.eq_dec lb 0) as [->|Hlb]|].
    + rewrite step_light_noemit in Hin. eapply IH; exact Hin.
    + rewrite step_light_emit in Hin by exact Hlb. destruct Hin as [<-|Hin]; [reflexivity|].
      eapply IH; exact Hin.
    + rewrite step_dark in Hin by exact Hbit. eapply IH; exact Hin.
Qed.

(* every line of the rest of the row lies between the pending start and the end of the row; it is
   non-empty unless the state itself carried an empty pending run *)
Lemma lines_row_bounds row : forall X x1 x2 a1 a2 lb y l,
  (x1 == X + inject_Z a1)%Q -> (x2 == X + inject_Z a2)%Q -> a1 <= a2 ->
  In l (close_row (lines_row row x1 x2 lb y) y) ->
  exists a b, (l_x1 l == X + inject_Z a)%Q /\ (l_x2 l == X + inject_Z b)%Q /\
              a1 <= a /\ a <= b /\ b <= a2 + lenZ row /\ ((lb <> 0 -> a1 < a2) -> a < b).
Proof.
  induction row as [|bit r IH]; intros X x1 x2 a1 a2 lb y l H1 H2 Hle Hin.
  - rewrite close_row_nil in Hin. destruct (lb =? 0) eqn:Elb; cbn [negb] in Hin; [destruct Hin|].
    destruct Hin as [<-|[]]. apply Z.eqb_neq in Elb. exists a1, a2. cbn [l_x1 l_x2].
    unfold lenZ. cbn [List.length]. repeat split; try assumption; try lia; intros H; exact (H Elb).
  - rewrite lenZ_cons.
    destruct (Z.eq_dec bit 0) as [->|Hbit]; [destruct (Z.eq_dec lb 0) as [->|Hlb]|].
    + rewrite step_light_noemit in Hin.
      destruct (IH X _ _ (a1 + 1) (a2 + 1) 0 y l (Qshift1 _ _ _ H1) (Qshift1 _ _ _ H2) ltac:(lia) Hin)
        as (a & b & Ha & Hb & Hl1 & Hl2 & Hl3 & Hne).
      exists a, b. assert (Hab : a < b) by (apply Hne; intros H; congruence).
        repeat split; try assumption; try lia.
    + rewrite step_light_emit in Hin by exact Hlb. destruct Hin as [<-|Hin].
      * exists a1, a2. cbn [l_x1 l_x2]. unfold lenZ. repeat split; try assumption; try lia;
        intros H; exact (H Hlb).
      * destruct (IH X _ _ (a2 + 1) (a2 + 1) 0 y l (Qshift1 _ _ _ H2) (Qshift1 _ _ _ H2) ltac:(lia) Hin)
          as (a & b & Ha & Hb & Hl1 & Hl2 & Hl3 & Hne).
        exists a, b. assert (Hab : a < b) by (apply Hne; intros H; congruence).
        repeat split; try assumption; try lia.
    + rewrite step_dark in Hin by exact Hbit.
      destruct (IH X _ _ a1 (a2 + 1) bit y l H1 (Qshift1 _ _ _ H2) ltac:(lia) Hin)
        as (a & b & Ha & Hb & Hl1 & Hl2 & Hl3 & Hne).
      exists a, b. assert (Hab : a < b) by (apply Hne; intros _; lia).
      repeat split; try assumption; try lia.
Qed.

(* l ends strictly before l' starts: at least one light module in between *)
Definition line_before (l l' : line) : Prop := (l_x2 l < l_x1 l')%Q.

Lemma lines_row_sorted row : forall X x1 x2 a1 a2 lb y,
  (x1 == X + inject_Z a1)%Q -> (x2 == X + inject_Z a2)%Q -> a1 <= a2 ->
  StronglySorted line_before (close_row (lines_row row x1 x2 lb y) y).
Proof.
  induction row as [|bit r IH]; intros X x1 x2 a1 a2 lb y H1 H2 Hle.
  - rewrite close_row_nil. destruct (negb (lb =? 0)); repeat constructor.
  - destruct (Z.eq_dec bit 0) as [->|Hbit]; [destruct (Z.eq_dec lb 0) as [->|Hlb]|].
    + rewrite step_light_noemit.
      apply (IH X _ _ (a1 + 1) (a2 + 1)); [apply Qshift1; exact H1 | apply Qshift1; exact H2 | lia].
    + rewrite step_light_emit by exact Hlb. constructor.
      * apply (IH X _ _ (a2 + 1) (a2 + 1)); [apply Qshift1; exact H2 | apply Qshift1; exact H2 | lia].
      * apply Forall_forall. intros l' Hin.
        destruct (lines_row_bounds r X _ _ (a2 + 1) (a2 + 1) 0 y l'
                    (Qshift1 _ _ _ H2) (Qshift1 _ _ _ H2) ltac:(lia) Hin)
          as (a & b & Ha & _ & Hl1 & _).
        unfold line_before. cbn [l_x2]. rewrite H2, Ha. apply Qplus_lt_r. rewrite <- Zlt_Qlt. lia.
    + rewrite step_dark by exact Hbit.
      apply (IH X _ _ a1 (a2 + 1)); [exact H1 | apply Qshift1; exact H2 | lia].
Qed.

(** ** Run-length characterisation of one row *)

(* maximal runs of non-zero cells of [row] as half-open column intervals [a, b); [c] = column of the head.
   Defined right-to-left, independently of the left-to-right state machine of the generator. *)
Definition attach (a1 a2 : Z) (rs : list (Z * Z)) : list (Z * Z) :=
  match rs with
  | (a', b') :: rest => if a' =? a2 then (a1, b') :: rest else (a1, a2) :: rs
  | [] => [(a1, a2)]
  end.
Fixpoint runs_of (row : list Z) (c : Z) : list (Z * Z) :=
  match row with
  | [] => []
  | b :: r => if b =? 0 then runs_of r (c + 1) else attach c (c + 1) (runs_of r (c + 1))
  end.

Lemma attach_attach a1 a2 a3 rs : attach a1 a2 (attach a2 a3 rs) = attach a1 a3 rs.
Proof.
  destruct rs as [|[a' b'] rest]; cbn [attach].
  - rewrite Z.eqb_refl. reflexivity.
  - destruct (a' =? a3); cbn [attach]; rewrite Z.eqb_refl; reflexivity.
Qed.

Lemma runs_of_lb row : forall c ab, In ab (runs_of row c) -> c <= fst ab.
Proof.
  induction row as [|b r IH]; intros c ab Hin; cbn [runs_of] in Hin; [destruct Hin|].
  destruct (b =? 0).
  - apply IH in Hin. lia.
  - unfold attach in Hin. destruct (runs_of r (c + 1)) as [|[a' b'] rest] eqn:E.
    + destruct Hin as [<-|[]]. cbn. lia.
    + assert (Hall : forall ab, In ab ((a', b') :: rest) -> c + 1 <= fst ab)
        by (intros ab' Hab'; apply IH; rewrite E; exact Hab').
      destruct (a' =? c + 1).
      * destruct Hin as [<-|Hin]; [cbn; lia|]. specialize (Hall ab (or_intror Hin)). lia.
      * destruct Hin as [<-|Hin]; [cbn; lia|]. specialize (Hall ab Hin). lia.
Qed.

Lemma attach_fresh a1 a2 rs : (forall ab, In ab rs -> a2 < fst ab) -> attach a1 a2 rs = (a1, a2) :: rs.
Proof.
  intros H. destruct rs as [|[a' b'] rest]; cbn [attach]; [reflexivity|].
  specialize (H (a', b') (or_introl eq_refl)). cbn [fst] in H.
  destruct (a' =? a2) eqn:E; [lia|reflexivity].
Qed.

Definition line_is (X y : Q) (l : line) (ab : Z * Z) : Prop :=
  (l_x1 l == X + inject_Z (fst ab))%Q /\ (l_x2 l == X + inject_Z (snd ab))%Q /\ l_y l = y.

Lemma lines_row_runs row : forall X x1 x2 a1 a2 lb y,
  (x1 == X + inject_Z a1)%Q -> (x2 == X + inject_Z a2)%Q -> (lb = 0 -> a1 = a2) ->
  Forall2 (line_is X y) (close_row (lines_row row x1 x2 lb y) y)
          (if lb =? 0 then runs_of row a2 else attach a1 a2 (runs_of row a2)).
Proof.
  induction row as [|bit r IH]; intros X x1 x2 a1 a2 lb y H1 H2 Hinv.
  - rewrite close_row_nil. cbn [runs_of attach]. destruct (lb =? 0); cbn [negb]; repeat constructor; assumption.
  - destruct (Z.eq_dec bit 0) as [->|Hbit]; [destruct (Z.eq_dec lb 0) as [->|Hlb]|].
    + rewrite step_light_noemit. cbn [runs_of]. change (0 =? 0) with true. cbv iota.
      exact (IH X _ _ (a1 + 1) (a2 + 1) 0 y (Qshift1 _ _ _ H1) (Qshift1 _ _ _ H2) ltac:(lia)).
    + rewrite step_light_emit by exact Hlb. cbn [runs_of]. change (0 =? 0) with true. cbv iota.
      rewrite (proj2 (Z.eqb_neq lb 0) Hlb).
      rewrite attach_fresh by (intros ab Hab; apply runs_of_lb in Hab; lia).
      constructor; [repeat split; assumption|].
      exact (IH X _ _ (a2 + 1) (a2 + 1) 0 y (Qshift1 _ _ _ H2) (Qshift1 _ _ _ H2) ltac:(lia)).
    + rewrite step_dark by exact Hbit. cbn [runs_of]. rewrite (proj2 (Z.eqb_neq bit 0) Hbit).
      pose proof (IH X _ _ a1 (a2 + 1) bit y H1 (Qshift1 _ _ _ H2) ltac:(lia)) as HIH.
      rewrite (proj2 (Z.eqb_neq bit 0) Hbit) in HIH.
      destruct (lb =? 0) eqn:Elb.
      * apply Z.eqb_eq in Elb. rewrite (Hinv Elb) in HIH. exact HIH.
      * rewrite attach_attach. exact HIH.
Qed.

(** ** All rows *)

Lemma lines_rows_cons row rest x y d lb :
  lines_rows (row :: rest) x y d lb
  = close_row (lines_row row x x lb (y + d)%Q) (y + d)%Q ++ lines_rows rest x (y + d)%Q d 0.
Proof.
  cbn [lines_rows]. destruct (lines_row row x x lb (y + d)%Q) as [ls [[u v] w]]. cbn [close_row].
  rewrite <- app_assoc. do 3 f_equal.
  destruct (w =? 0) eqn:E; cbn [negb]; [apply Z.eqb_eq in E; exact E | reflexivity].
Qed.

(* the start-up artefact: [last_bit] is initialised to 1, so a matrix whose first module is light (or whose
   first row is empty) yields one extra, empty segment (x, y) -> (x, y) *)
Definition first_light (m : list (list Z)) : bool :=
  match m with
  | [] => false
  | row :: _ => match row with [] => true | b :: _ => b =? 0 end
  end.

Theorem matrix_to_lines_artefact : forall m x y d,
  matrix_to_lines m x y d
  = (if first_light m then [{| l_x1 := x; l_x2 := x; l_y := (y - d + d)%Q |}] else [])
    ++ lines_rows m x (y - d)%Q d 0.
Proof.
  intros m x y d. unfold matrix_to_lines, first_light. destruct m as [|row rest]; [reflexivity|].
  rewrite !lines_rows_cons. rewrite app_assoc. f_equal.
  destruct row as [|b r].
  - reflexivity.
  - destruct (Z.eq_dec b 0) as [->|Hb].
    + change (0 =? 0) with true. cbv iota.
      rewrite step_light_emit by discriminate. rewrite step_light_noemit. reflexivity.
    + rewrite (proj2 (Z.eqb_neq b 0) Hb). rewrite !step_dark by exact Hb. reflexivity.
Qed.

Lemma lines_rows_y rows : forall x y d lb l,
  In l (lines_rows rows x y d lb) ->
  exists k, 1 <= k <= lenZ rows /\ (l_y l == y + inject_Z k * d)%Q.
Proof.
  induction rows as [|row rest IH]; intros x y d lb l Hin; [destruct Hin|].
  rewrite lines_rows_cons in Hin. rewrite lenZ_cons. apply in_app_or in Hin. destruct Hin as [Hin|Hin].
  - apply lines_row_y in Hin. exists 1. split; [unfold lenZ; lia|]. rewrite Hin.
    change (inject_Z 1) with 1%Q. ring.
  - apply IH in Hin. destruct Hin as [k [Hk Hy]]. exists (k + 1). split; [lia|].
    rewrite Hy, inject_Z_plus. change (inject_Z 1) with 1%Q. ring.
Qed.

Lemma mcell_nil r c : mcell [] r c = 0.
Proof. unfold mcell. destruct (Z.to_nat r); destruct (Z.to_nat c); reflexivity. Qed.
Lemma mcell_cons_0 row rest c : mcell (row :: rest) 0 c = nth (Z.to_nat c) row 0.
Proof. reflexivity. Qed.
Lemma mcell_cons_S row rest r c : 0 < r -> mcell (row :: rest) r c = mcell rest (r - 1) c.
Proof. intros Hr. unfold mcell. replace (Z.to_nat r) with (S (Z.to_nat (r - 1))) by lia. reflexivity. Qed.

Lemma lines_rows_cover rows : forall x y d lb r c yy p,
  ~ (d == 0)%Q -> 0 <= r -> 0 <= c ->
  (yy == y + inject_Z (r + 1) * d)%Q -> (p == x + inject_Z c)%Q ->
  cover_count (lines_rows rows x y d lb) yy p = Nat.b2n (dark (mcell rows r c)).
Proof.
  induction rows as [|row rest IH]; intros x y d lb r c yy p Hd Hr Hc Hyy Hp.
  - rewrite mcell_nil. reflexivity.
  - rewrite lines_rows_cons, cover_count_app.
    destruct (Z.eq_dec r 0) as [->|Hr0].
    + rewrite (lines_row_cover row x x x 0 0 lb (y + d)%Q yy p c);
        [| apply Qshift0 | apply Qshift0 | lia | reflexivity | | exact Hp].
      2:{ rewrite Hyy. change (inject_Z (0 + 1)) with 1%Q. ring. }
      rewrite cover_count_zero.
      2:{ intros l Hin Hl. apply lines_rows_y in Hin. destruct Hin as [k [Hk Hy]].
          rewrite Hy, Hyy in Hl. change (inject_Z (0 + 1)) with 1%Q in Hl.
          assert (Hl' : (y + inject_Z (k + 1) * d == y + inject_Z 1 * d)%Q).
          { rewrite inject_Z_plus. change (inject_Z 1) with 1%Q. rewrite <- Hl. ring. }
          apply Qrow_inj in Hl'; [lia | exact Hd]. }
      rewrite mcell_cons_0, Z.sub_0_r, (row_dark_nth row c Hc).
      destruct (dark (nth (Z.to_nat c) row 0)); destruct (dark lb); lia.
    + rewrite cover_count_zero.
      2:{ intros l Hin Hl. apply lines_row_y in Hin. rewrite Hin, Hyy in Hl.
          assert (Hl' : (y + inject_Z 1 * d == y + inject_Z (r + 1) * d)%Q).
          { rewrite <- Hl. change (inject_Z 1) with 1%Q. ring. }
          apply Qrow_inj in Hl'; [lia | exact Hd]. }
      rewrite (IH x (y + d)%Q d 0 (r - 1) c yy p Hd ltac:(lia) Hc); [| | exact Hp].
      * rewrite mcell_cons_S by lia. reflexivity.
      * rewrite Hyy. replace (r + 1) with ((r - 1 + 1) + 1) at 1 by lia.
        rewrite (inject_Z_plus (r - 1 + 1) 1). change (inject_Z 1) with 1%Q. ring.
Qed.

Lemma lines_rows_bounds rows : forall x y d lb l,
  In l (lines_rows rows x y d lb) ->
  exists r a b, 0 <= r < lenZ rows /\ (l_y l == y + inject_Z (r + 1) * d)%Q /\
    (l_x1 l == x + inject_Z a)%Q /\ (l_x2 l == x + inject_Z b)%Q /\
    0 <= a /\ a <= b /\ b <= lenZ (nth (Z.to_nat r) rows []) /\ (lb = 0 -> a < b).
Proof.
  induction rows as [|row rest IH]; intros x y d lb l Hin; [destruct Hin|].
  rewrite lines_rows_cons in Hin. rewrite lenZ_cons. apply in_app_or in Hin. destruct Hin as [Hin|Hin].
  - pose proof (lines_row_y _ _ _ _ _ _ Hin) as Hy.
    destruct (lines_row_bounds row x x x 0 0 lb (y + d)%Q l (Qshift0 x) (Qshift0 x) ltac:(lia) Hin)
      as (a & b & Ha & Hb & Hl1 & Hl2 & Hl3 & Hne).
    assert (HY : (l_y l == y + inject_Z (0 + 1) * d)%Q)
      by (rewrite Hy; change (inject_Z (0 + 1)) with 1%Q; ring).
    exists 0, a, b. cbn [Z.to_nat nth]. unfold lenZ at 1.
    repeat split; try assumption; try lia; intros Hlb; apply Hne; intros H; contradiction.
  - destruct (IH _ _ _ _ _ Hin) as (r & a & b & Hr & Hy & Ha & Hb & Hl1 & Hl2 & Hl3 & Hne).
    assert (HY : (l_y l == y + inject_Z (r + 1 + 1) * d)%Q)
      by (rewrite Hy, (inject_Z_plus (r + 1) 1); change (inject_Z 1) with 1%Q; ring).
    assert (Hab : a < b) by (apply Hne; reflexivity).
    exists (r + 1), a, b. replace (Z.to_nat (r + 1)) with (S (Z.to_nat r)) by lia. cbn [nth].
    repeat split; try assumption; try lia.
Qed.

Lemma filter_all {A} (f : A -> bool) l : (forall a, In a l -> f a = true) -> filter f l = l.
Proof.
  induction l as [|a l IH]; intros H; [reflexivity|]. cbn [filter].
  rewrite (H a (or_introl eq_refl)), IH by (intros a' Ha'; apply H; right; exact Ha'). reflexivity.
Qed.
Lemma filter_none {A} (f : A -> bool) l : (forall a, In a l -> f a = false) -> filter f l = [].
Proof.
  induction l as [|a l IH]; intros H; [reflexivity|]. cbn [filter].
  rewrite (H a (or_introl eq_refl)). apply IH. intros a' Ha'. apply H. right. exact Ha'.
Qed.

Lemma Qeq_bool_false (u v : Q) : ~ (u == v)%Q -> Qeq_bool u v = false.
Proof. intros H. destruct (Qeq_bool u v) eqn:E; [|reflexivity]. apply Qeq_bool_iff in E. contradiction. Qed.

(* the lines at any given height are in strictly increasing order and pairwise separated *)
Lemma lines_rows_sorted rows : forall x y d lb yy,
  ~ (d == 0)%Q ->
  StronglySorted line_before (filter (fun l => Qeq_bool (l_y l) yy) (lines_rows rows x y d lb)).
Proof.
  induction rows as [|row rest IH]; intros x y d lb yy Hd; [constructor|].
  rewrite lines_rows_cons, filter_app.
  destruct (Qeq_bool (y + d)%Q yy) eqn:E.
  - apply Qeq_bool_iff in E.
    rewrite filter_all.
    2:{ intros l Hin. apply lines_row_y in Hin. rewrite Hin. apply Qeq_bool_iff. exact E. }
    rewrite filter_none.
    2:{ intros l Hin. apply Qeq_bool_false. intros Hl. apply lines_rows_y in Hin.
        destruct Hin as [k [Hk Hy]].
        assert (Hl' : ((y + d) + inject_Z k * d == (y + d) + inject_Z 0 * d)%Q).
        { rewrite <- Hy, Hl, <- E. change (inject_Z 0) with 0%Q. ring. }
        apply Qrow_inj in Hl'; [lia | exact Hd]. }
    rewrite app_nil_r.
    apply (lines_row_sorted row x x x 0 0); [apply Qshift0 | apply Qshift0 | lia].
  - rewrite filter_none.
    2:{ intros l Hin. apply lines_row_y in Hin. rewrite Hin. exact E. }
    apply IH. exact Hd.
Qed.

(* run-length form for the whole matrix: (row index, start column, stop column) *)
Fixpoint matrix_runs (rows : list (list Z)) (r0 : Z) : list (Z * Z * Z) :=
  match rows with
  | [] => []
  | row :: rest => map (fun ab => (r0, fst ab, snd ab)) (runs_of row 0) ++ matrix_runs rest (r0 + 1)
  end.
Definition line_at (x y d : Q) (l : line) (t : Z * Z * Z) : Prop :=
  let '(r, a, b) := t in
  (l_y l == y + inject_Z r * d)%Q /\ (l_x1 l == x + inject_Z a)%Q /\ (l_x2 l == x + inject_Z b)%Q.

Lemma Forall2_map_r {A B C} (P : A -> C -> Prop) (f : B -> C) l l' :
  Forall2 (fun a b => P a (f b)) l l' -> Forall2 P l (map f l').
Proof. induction 1; cbn [map]; constructor; assumption. Qed.
Lemma Forall2_weaken {A B} (P P' : A -> B -> Prop) l l' :
  (forall a b, P a b -> P' a b) -> Forall2 P l l' -> Forall2 P' l l'.
Proof. intros H. induction 1; constructor; auto. Qed.

Lemma lines_rows_runs_gen rows : forall x y y0 d r0,
  (y + d == y0 + inject_Z r0 * d)%Q ->
  Forall2 (line_at x y0 d) (lines_rows rows x y d 0) (matrix_runs rows r0).
Proof.
  induction rows as [|row rest IH]; intros x y y0 d r0 Hy; [constructor|].
  rewrite lines_rows_cons. cbn [matrix_runs]. apply Forall2_app.
  - apply Forall2_map_r.
    pose proof (lines_row_runs row x x x 0 0 0 (y + d)%Q (Qshift0 x) (Qshift0 x) ltac:(lia)) as H.
    change (0 =? 0) with true in H. cbv iota in H.
    revert H. apply Forall2_weaken. intros l [a b] [Ha [Hb Hl]]. cbn [fst snd] in *.
    unfold line_at. rewrite Hl. repeat split; assumption.
  - apply IH. rewrite inject_Z_plus. change (inject_Z 1) with 1%Q.
    rewrite Qmult_plus_distr_l, Qplus_assoc, <- Hy. ring.
Qed.

(** ** Main theorems about matrix_to_lines *)

(* C10 core: at the height of row r, the point x + c is covered by exactly one line if module (r, c) is dark
   and by none if it is light (or outside the matrix).  [d] = incby must be non-zero so that rows are drawn
   at distinct heights. *)
Theorem lines_cover_count : forall matrix x y d r c,
  ~ (d == 0)%Q -> 0 <= r -> 0 <= c ->
  cover_count (matrix_to_lines matrix x y d) (y + inject_Z r * d)%Q (x + inject_Z c)%Q
  = Nat.b2n (dark (mcell matrix r c)).
Proof.
  intros matrix x y d r c Hd Hr Hc. unfold matrix_to_lines.
  apply lines_rows_cover; try assumption; [|reflexivity].
  rewrite inject_Z_plus. change (inject_Z 1) with 1%Q. ring.
Qed.
Print Assumptions lines_cover_count.

Theorem lines_cover : forall matrix x y d r c,
  ~ (d == 0)%Q -> 0 <= r -> 0 <= c ->
  (mcell matrix r c <> 0 <->
   exists l, In l (matrix_to_lines matrix x y d) /\
             (l_y l == y + inject_Z r * d)%Q /\
             (l_x1 l <= x + inject_Z c)%Q /\ (x + inject_Z c < l_x2 l)%Q).
Proof.
  intros matrix x y d r c Hd Hr Hc.
  pose proof (lines_cover_count matrix x y d r c Hd Hr Hc) as Hcnt. unfold dark in Hcnt.
  split.
  - intros Hne. apply Z.eqb_neq in Hne. rewrite Hne in Hcnt. cbn [negb Nat.b2n] in Hcnt.
    assert (Hpos : (0 < cover_count (matrix_to_lines matrix x y d)
                           (y + inject_Z r * d)%Q (x + inject_Z c)%Q)%nat) by lia.
    apply cover_count_pos in Hpos. destruct Hpos as [l [Hin Hcov]].
    exists l. split; [exact Hin|]. apply covers_true_iff. exact Hcov.
  - intros [l [Hin Hcov]]. apply covers_true_iff in Hcov.
    assert (Hpos : (0 < cover_count (matrix_to_lines matrix x y d)
                           (y + inject_Z r * d)%Q (x + inject_Z c)%Q)%nat)
      by (apply cover_count_pos; exists l; split; assumption).
    intros Heq. rewrite Heq in Hcnt. cbn in Hcnt. lia.
Qed.
Print Assumptions lines_cover.

(* the same, exhibiting the unique covering line *)
Theorem lines_cover_exactly_one : forall matrix x y d r c,
  ~ (d == 0)%Q -> 0 <= r -> 0 <= c ->
  let covering := filter (fun l => covers l (y + inject_Z r * d)%Q (x + inject_Z c)%Q)
                         (matrix_to_lines matrix x y d) in
  (mcell matrix r c <> 0 -> exists l, covering = [l]) /\ (mcell matrix r c = 0 -> covering = []).
Proof.
  intros matrix x y d r c Hd Hr Hc covering.
  pose proof (lines_cover_count matrix x y d r c Hd Hr Hc) as Hcnt. unfold dark, cover_count in Hcnt.
  fold covering in Hcnt. split.
  - intros Hne. apply Z.eqb_neq in Hne. rewrite Hne in Hcnt. cbn [negb Nat.b2n] in Hcnt.
    destruct covering as [|l [|l' rest]]; cbn [List.length] in Hcnt; try lia. exists l. reflexivity.
  - intros Heq. rewrite Heq in Hcnt. cbn [Z.eqb negb Nat.b2n] in Hcnt.
    destruct covering as [|l rest]; [reflexivity | cbn [List.length] in Hcnt; lia].
Qed.

(* for 0/1 matrices, in the vocabulary of the task statement *)
Corollary lines_cover_01 : forall matrix x y d r c,
  ~ (d == 0)%Q -> 0 <= r -> 0 <= c -> (mcell matrix r c = 0 \/ mcell matrix r c = 1) ->
  (mcell matrix r c = 1 <->
   exists l, In l (matrix_to_lines matrix x y d) /\
             (l_y l == y + inject_Z r * d)%Q /\
             (l_x1 l <= x + inject_Z c)%Q /\ (x + inject_Z c < l_x2 l)%Q).
Proof.
  intros matrix x y d r c Hd Hr Hc H01. rewrite <- (lines_cover matrix x y d r c Hd Hr Hc). lia.
Qed.

(* every emitted line belongs to a row r of the matrix, lies at that row's height and inside the row *)
Theorem lines_bounds : forall matrix x y d l,
  In l (matrix_to_lines matrix x y d) ->
  exists r a b, 0 <= r < lenZ matrix /\ (l_y l == y + inject_Z r * d)%Q /\
    (l_x1 l == x + inject_Z a)%Q /\ (l_x2 l == x + inject_Z b)%Q /\
    0 <= a /\ a <= b /\ b <= lenZ (nth (Z.to_nat r) matrix []).
Proof.
  intros matrix x y d l Hin. unfold matrix_to_lines in Hin.
  destruct (lines_rows_bounds _ _ _ _ _ _ Hin) as (r & a & b & Hr & Hy & Ha & Hb & Hl1 & Hl2 & Hl3 & _).
  exists r, a, b. repeat split; try assumption; try lia.
  rewrite Hy, inject_Z_plus. change (inject_Z 1) with 1%Q. ring.
Qed.

(* every line is non-empty, except the start-up artefact *)
Theorem lines_nonempty : forall matrix x y d l,
  In l (matrix_to_lines matrix x y d) ->
  (l_x1 l < l_x2 l)%Q
  \/ (first_light matrix = true /\ l = {| l_x1 := x; l_x2 := x; l_y := (y - d + d)%Q |}).
Proof.
  intros matrix x y d l Hin. rewrite matrix_to_lines_artefact in Hin. apply in_app_or in Hin.
  destruct Hin as [Hin|Hin].
  - right. destruct (first_light matrix); [|destruct Hin]. destruct Hin as [<-|[]]. split; reflexivity.
  - left. destruct (lines_rows_bounds _ _ _ _ _ _ Hin) as (r & a & b & _ & _ & Ha & Hb & _ & _ & _ & Hne).
    rewrite Ha, Hb. apply Qplus_lt_r. rewrite <- Zlt_Qlt. apply Hne. reflexivity.
Qed.

(* the lines at one height come in strictly increasing order with a gap between consecutive ones *)
Theorem lines_sorted : forall matrix x y d yy,
  ~ (d == 0)%Q ->
  StronglySorted line_before (filter (fun l => Qeq_bool (l_y l) yy) (matrix_to_lines matrix x y d)).
Proof. intros matrix x y d yy Hd. unfold matrix_to_lines. apply lines_rows_sorted. exact Hd. Qed.

(* run-length form: apart from the artefact, the output is, in order, the maximal runs of every row *)
Theorem lines_rows_runs : forall m x y d,
  Forall2 (line_at x y d) (lines_rows m x (y - d)%Q d 0) (matrix_runs m 0).
Proof.
  intros m x y d. apply lines_rows_runs_gen. change (inject_Z 0) with 0%Q. ring.
Qed.

Theorem matrix_to_lines_runs : forall m x y d,
  exists art,
    matrix_to_lines m x y d = art ++ lines_rows m x (y - d)%Q d 0 /\
    art = (if first_light m then [{| l_x1 := x; l_x2 := x; l_y := (y - d + d)%Q |}] else []) /\
    Forall2 (line_at x y d) (lines_rows m x (y - d)%Q d 0) (matrix_runs m 0).
Proof.
  intros m x y d. eexists. split; [apply matrix_to_lines_artefact|]. split; [reflexivity|].
  apply lines_rows_runs.
Qed.
Print Assumptions lines_bounds.
Print Assumptions lines_nonempty.
Print Assumptions lines_sorted.
Print Assumptions matrix_to_lines_runs.

(* ------------------------------------------------------------------------------------------------ *)
(** * 5. Examples *)

Definition M3 : list (list Z) := [[1;0;1]; [0;0;0]; [0;1;1]].

Example ex_iter_scale2_border1 :
  matrix_iter M3 3 3 (PFloat (5#2)) (Some (PInt 1))
  = Ok [[0;0;0;0;0;0;0;0;0;0]; [0;0;0;0;0;0;0;0;0;0];
        [0;0;1;1;0;0;1;1;0;0]; [0;0;1;1;0;0;1;1;0;0];
        [0;0;0;0;0;0;0;0;0;0]; [0;0;0;0;0;0;0;0;0;0];
        [0;0;0;0;1;1;1;1;0;0]; [0;0;0;0;1;1;1;1;0;0];
        [0;0;0;0;0;0;0;0;0;0]; [0;0;0;0;0;0;0;0;0;0]].
Proof. vm_compute. reflexivity. Qed.
Example ex_iter_is_spec :
  matrix_iter M3 3 3 (PInt 2) (Some (PFloat (2#2))) = Ok (pixel_grid M3 3 2 1).
Proof. vm_compute. reflexivity. Qed.
Example ex_iter_default_border : matrix_iter M3 3 3 (PInt 1) None = Ok (pixel_grid M3 3 1 2).
Proof. vm_compute. reflexivity. Qed.
Example ex_iter_bad_border_neg : matrix_iter M3 3 3 (PInt 1) (Some (PInt (-1))) = Err ValueError.
Proof. vm_compute. reflexivity. Qed.
Example ex_iter_bad_border_frac : matrix_iter M3 3 3 (PInt 1) (Some (PFloat (3#2))) = Err ValueError.
Proof. vm_compute. reflexivity. Qed.
Example ex_iter_bad_scale : matrix_iter M3 3 3 (PFloat (9#10)) None = Err ValueError.
Proof. vm_compute. reflexivity. Qed.
Example ex_verbose_shape :
  lenZ (iter_verbose_rows M3 M3 3 3 2 1) = 10
  /\ forallb (fun row => lenZ row =? 10) (iter_verbose_rows M3 M3 3 3 2 1) = true.
Proof. vm_compute. split; reflexivity. Qed.

Example ex_lines :
  matrix_to_lines M3 0 (1#2) 1
  = [ {| l_x1 := 0; l_x2 := 1; l_y := 1#2 |}; {| l_x1 := 2; l_x2 := 3; l_y := 1#2 |};
      {| l_x1 := 1; l_x2 := 3; l_y := 5#2 |} ].
Proof. vm_compute. reflexivity. Qed.
Example ex_runs : matrix_runs M3 0 = [(0, 0, 1); (0, 2, 3); (2, 1, 3)].
Proof. vm_compute. reflexivity. Qed.
(* the start-up artefact exists in the model (and in utils.py): first module light => one empty line *)
Example ex_artefact :
  matrix_to_lines [[0;1]] 0 0 1
  = [ {| l_x1 := 0; l_x2 := 0; l_y := 0 |}; {| l_x1 := 1; l_x2 := 2; l_y := 0 |} ].
Proof. vm_compute. reflexivity. Qed.
Example ex_cover :
  map (fun r => map (fun c => cover_count (matrix_to_lines M3 0 (1#2) 1) ((1#2) + inject_Z r * 1)%Q
                                          (0 + inject_Z c)%Q) [0;1;2]) [0;1;2]
  = [[1;0;1]; [0;0;0]; [0;1;1]]%nat.
Proof. vm_compute. reflexivity. Qed.
