(* Extraction of the executable model and of the specification-side oracles to OCaml.
   ExtrOcamlBasic only: bool, option, unit, list, prod, sumbool map to OCaml's; Z/N/positive stay
   inductive.  No Extract Constant / Extract Inductive directives of our own. *)
From Coq Require Extraction.
From Coq Require Import ExtrOcamlBasic.
From Coq Require Import ZArith List.
From Segno Require Import Base.PyLite Ref.Geometry Ref.MaskCond Ref.Bch.
From Segno Require Import Ref.Classify Ref.Decoder Ref.Spec.
From Segno Require Import Model.Bits Model.Segment Model.Version Model.Stream Model.Matrix Model.Encode Model.Sequence Model.Args.
From Segno Require Import Ref.Pixel Model.Iter Model.Color Model.TextFmt Ref.TextFmtReader Model.Png Ref.PngReader Ref.NetpbmReader Model.Helpers Ref.HelpersReader Model.Route.
From Segno Require Import Model.Svg Ref.SvgReader Ref.SvgReaderDec Model.Vector Ref.VectorReader.
Cd "build/ocaml".
Separate Extraction Classify.classify_matrix Classify.kf_fmt_col Classify.align_aux_matrix
  Encode.encode Encode.encode_core Args.encode_args Args.normalize_version Args.normalize_mode Args.normalize_mask Args.normalize_errorlevel Sequence.encode_sequence Sequence.chunk_overflows Sequence.divide_into_chunks Segment.make_segment Segment.find_mode Version.find_version Version.boost_error_level
  Version.bit_length_with_overhead Stream.make_final_message Matrix.mask_scores Matrix.evaluate_micro_mask
  Decoder.decode_symbol Decoder.read_blocks Decoder.read_format Decoder.read_stream
  Spec.c02_check Spec.c03_check Spec.c13_check Spec.candidate_scores Spec.iso_best_mask Spec.spec_mode
  Spec.spec_version Spec.spec_boost Spec.kf_pad_aligned Spec.iso_penalty Spec.iso_micro_score Spec.spec_bits Spec.function_pattern_errors
  Pixel.pixel_grid Iter.matrix_iter Iter.iter_verbose_rows Iter.matrix_to_lines Color.color_to_rgba Color.make_colormap
  TextFmt.write_txt TextFmt.write_xpm TextFmt.write_xbm TextFmt.write_terminal TextFmt.write_terminal_compact
  TextFmtReader.read_txt TextFmtReader.read_xbm TextFmtReader.read_xpm TextFmtReader.read_terminal TextFmtReader.read_terminal_compact
  Png.png_parts Png.crc32 PngReader.read_png NetpbmReader.read_pbm NetpbmReader.read_pam_full NetpbmReader.read_ppm_full
  Route.resolve Route.sequence_filename Route.build_config Route.default_config
  Helpers.make_wifi_data Helpers.make_mecard_data Helpers.make_vcard_data Helpers.make_geo_data Helpers.make_make_email_data
  Helpers.make_epc_qr_data_std
  HelpersReader.mecard_read HelpersReader.mecard_pieces_read HelpersReader.mecard_components HelpersReader.cut_esc
  HelpersReader.vcard_read HelpersReader.vcard_content_lines HelpersReader.split_crlf HelpersReader.vcard_unescape
  HelpersReader.vcard_components HelpersReader.mailto_read HelpersReader.uri_text HelpersReader.geo_read
  HelpersReader.epc_read_lines HelpersReader.epc_read_amount
  Svg.write_svg SvgReader.read_svg SvgReader.stroke_cells SvgReader.fill_rect SvgReader.page_user SvgReader.path_scale
  SvgReaderDec.read_svg_q SvgReaderDec.page_user_q SvgReaderDec.path_scale_q SvgReaderDec.stroke_cells_q SvgReaderDec.fill_rect_q
  Vector.write_eps Vector.write_pdf Vector.pdf_content Vector.write_tex
  VectorReader.eps_read VectorReader.pdf_read_content VectorReader.pdf_read_file VectorReader.pgf_read VectorReader.stroke_cells.
Cd "../..".
