(* Extraction of the executable model and of the specification-side oracles to OCaml.
   ExtrOcamlBasic only: bool, option, unit, list, prod, sumbool map to OCaml's; Z/N/positive stay
   inductive.  No Extract Constant / Extract Inductive directives of our own. *)
From Coq Require Extraction.
From Coq Require Import ExtrOcamlBasic.
From Coq Require Import ZArith List.
From Segno Require Import Base.PyLite Ref.Geometry Ref.MaskCond Ref.Bch.
From Segno Require Import Ref.Classify.
Cd "build/ocaml".
Extraction "model.ml" Classify.classify_matrix Classify.kf_fmt_col Classify.align_aux_matrix.
Cd "../..".
