(* Extraction of the executable model and of the specification-side oracles to OCaml.
   ExtrOcamlBasic only: bool, option, unit, list, prod, sumbool map to OCaml's; Z/N/positive stay
   inductive.  No Extract Constant / Extract Inductive directives of our own. *)
From Coq Require Extraction.
From Coq Require Import ExtrOcamlBasic.
From Coq Require Import ZArith List.
From Segno Require Import Base.PyLite Ref.Geometry Ref.MaskCond Ref.Bch.
From Segno Require Import Ref.Classify.
From Segno Require Import Model.Bits Model.Segment Model.Version Model.Stream Model.Matrix Model.Encode.
Cd "build/ocaml".
Extraction "model.ml" Classify.classify_matrix Classify.kf_fmt_col Classify.align_aux_matrix
  Encode.encode Encode.encode_core Segment.make_segment Segment.find_mode Version.find_version Version.boost_error_level
  Version.bit_length_with_overhead Stream.make_final_message Matrix.mask_scores Matrix.evaluate_micro_mask.
Cd "../..".
