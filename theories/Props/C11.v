(* C11 -- module classification (verbose iteration).  Only statements closed by [exact]. *)
From Coq Require Import ZArith List Bool.
From Segno Require Import Base.PyLite Ref.Geometry Ref.Classify Tie.TieGetBit.
Open Scope Z_scope.

(* Full statement: at every position of every symbol size, for every value the module can have, the
   classifier of the CURRENT source (translated get_bit) reports the ISO type in the matching variant. *)
Definition C11_classify_statement : Prop :=
  forall size i j val, In size all_sizes -> 0 <= i < size -> 0 <= j < size -> admissible_val size i j val ->
    get_bit_at size i j val = iso_code_at size i j val.

(* ... which is false of the unchanged tree (known finding D10, `kf_fmt_col`): *)
Theorem C11_classify_refuted :
  get_bit_at 21 8 12 0 = 14 /\ iso_code_at 21 8 12 0 = 4 /\ kf_fmt_col 21 8 12 = true.
Proof. exact get_bit_kf_witness. Qed.

(* ... and true everywhere else: the statement minus exactly the listed deviation. *)
Theorem C11_classify_partial :
  forall size i j val, In size all_sizes -> 0 <= i < size -> 0 <= j < size -> admissible_val size i j val ->
    kf_fmt_col size i j = false -> get_bit_at size i j val = iso_code_at size i j val.
Proof. exact get_bit_is_iso_except_kf. Qed.

(* outside the symbol every position is quiet zone (any border width) *)
Theorem C11_quiet_zone :
  forall size i j m am sq mi, negb ((0 <=? i) && (i <? size) && (0 <=? j) && (j <? size)) = true ->
    SegnoSrc.SrcFuns.src_get_bit m am size size sq mi i j = 18.
Proof. exact get_bit_quiet. Qed.

Print Assumptions C11_classify_refuted.
Print Assumptions C11_classify_partial.
Print Assumptions C11_quiet_zone.
