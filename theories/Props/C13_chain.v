(* C13, whole-symbol form -- every symbol of the model's encode_core carries the ISO 7.4.9 / 7.4.10 padded stream of its segment bits,
   padded to the capacity of the error level THE SYMBOL REPORTS (after boosting), and that stream is what the reference reader takes from the matrix.
   Statement copied verbatim from Lemmas/PadChain.v and closed by [exact].  With the bridge Tie/TieEncodeFinal.v src_encode_is_encode_core
   (translated _encode = encode_core, re-checked against the current source on every run) this is a statement about /repo's _encode:
   capacity lookup, boosting, terminator, bit padding and pad codewords in the order the code performs them.
   [iso_pad_kf] is ISO padding with the single recorded deviation D1 (kf_pad_aligned, Props/C13.v); outside D1 the stream is [iso_pad]. *)
From Coq Require Import ZArith List Bool.
From Segno Require Import Base.PyLite Ref.IsoData Ref.Spec Ref.Geometry Ref.Decoder.
From Segno Require Import Model.Bits Model.Segment Model.Version Model.Stream Model.Matrix Model.Encode.
From Segno Require Import Lemmas.PadLemmas Lemmas.ParseLemmas Lemmas.RoundTrip Lemmas.PadChain.
Import ListNotations.
Open Scope Z_scope.

Theorem C13_encode_core_data_is_iso_pad :
  forall segs error version mask eci boost sa code,
  -3 <= version <= 40 ->
  encode_core segs error version mask eci boost sa = Ok code ->
  exists body cap buff final,
    write_segments segs (over version) (cci_col version) eci = Ok body /\
    capacity version (c_error code) = Ok cap /\
    data_stream segs (c_error code) version eci sa = Ok buff /\
    (lenZ (sa_hdr sa ++ body) <= cap ->
       firstn (Z.to_nat cap) buff = iso_pad_kf version cap (sa_hdr sa ++ body)) /\
    (lenZ (sa_hdr sa ++ body) <= cap -> kf_pad_aligned version cap (lenZ (sa_hdr sa ++ body)) = false ->
       firstn (Z.to_nat cap) buff = iso_pad version cap (sa_hdr sa ++ body)) /\
    make_final_message version (c_error code) buff = Ok final /\
    (List.length final = List.length (data_positions (calc_matrix_size version)) ->
       read_stream (c_matrix code) (c_mask code) = final).
Proof. exact (@encode_core_data_is_iso_pad). Qed.

Print Assumptions C13_encode_core_data_is_iso_pad.
