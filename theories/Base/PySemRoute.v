(* PySemRoute: the additions to Base/PySem.v that the translated ROUTING code needs -- writers.save (extension / kind ->
   serializer), QRCodeSequence.save (file names of the symbols of a sequence), cli.build_config (which command line values
   reach the serializer) -- build/gen/SrcRouteSave.v, SrcRouteSeq.v, SrcRouteCli.v, written by gen/translate_route.py.
   Hand-written and trusted like Base/PySem.v (DESIGN.md 11.6 / 11.15).  Every name here starts with [pyr_] or [PO].

   str        A Python `str` is the [list Z] of its code points (translator type 'ustr', the convention of Model/Color.v).
              The semantics is Python's for ASCII strings: `s.lower()` is [pyr_lower] (beyond ASCII str.lower follows the
              Unicode case mappings).  `a + b` is [++], `a == b` is [pyr_str_eqb], `s.rfind(sub)` is [pyr_rfind] (highest
              index at which sub occurs, -1 if none), slices are PySem.py_slice / py_slice_from.
   f-strings  `f'..{s}..{i:02d}..'`: the concatenation of the constant parts, the str values and the int values formatted with their
              LITERAL specification (decided at translation time: [pyr_str_int], [pyr_pad_zero w], [pyr_pad_space w]).
   format     `s.format(a0, a1, ..)` with a RUN-TIME format string s and int arguments: [pyr_format] (no translated function
              uses it since /repo 7f5d13e; kept with its examples).  The string is scanned
              left to right as CPython's MarkupIterator does: `{{` and `}}` are the literal braces, a single `}` is ValueError,
              `{` opens a replacement field that must read  <decimal index> [ ':' <spec> ] '}' ; the end of the string inside
              a field is ValueError; an index outside the arguments is IndexError.  The specifications of the fragment are
              `` / `d` (decimal, [pyr_str_int]), `0<width>[d]` (sign-aware zero padding) and `<width>[d]` (right aligned,
              spaces).  EVERYTHING ELSE -- automatic numbering `{}`, names `{x}` (KeyError in CPython), attributes, item
              access, conversions `!r`, nested fields, other specifications -- is reported as [Err pyr_unmodelled], the
              marker of Base/PySemExt.v with the same reading: `.. = Ok v` and `.. = Err e` with e <> pyr_unmodelled are
              exact statements about the Python run, the marker says nothing.  The translator refuses a `try` whose handler
              would catch the marker.
   out        The `out` argument of the save functions: a str (a file name) or a file-like object whose `name` attribute
              is a str, or a file-like object without `name` ([py_out]).  `out.name` is AttributeError for a str and for a
              nameless stream ([pyr_out_name]); a str method on a stream is AttributeError, subscripting a stream TypeError
              ([pyr_out_str] with the exception as argument); `isinstance(out, str)` is [pyr_out_is_str].  Stream objects
              whose `name` is not a str (files opened by descriptor) are outside the type.
   serializer `_VALID_SERIALIZERS[k]`: the dict maps a str key to a function; the function is identified by its key
              ([pyr_strkey_get]: the key itself, KeyError when it is not a key).  The keys are SrcTables.VALID_SERIALIZERS,
              dumped from the imported module in insertion order.
   config     The dict `config` of cli.build_config: keys are str, a VALUE IS GIVEN BY ITS `repr` (type [list Z]; this is
              how Model/Route.v types it).  The values are None, bools, ints, floats, strs and lists / tuples of these (what
              argparse yields).  On this universe `v is None` is "repr = None" ([pyr_repr_is_none]), `v == <str constant c>` is
              "repr = repr(c)" (the translator writes repr(c), computed by CPython, into the generated text), truthiness is
              [pyr_repr_truthy]: falsy are None, False, 0, 0.0, -0.0, '', [], (), {}, set(), b''.  A dict is the association list of its
              items in insertion order with distinct keys: `d[k] = v` replaces the value in place or appends
              ([pyr_cfg_set]), `d.pop(k, dflt)` ([pyr_cfg_pop]: value-or-default and the dict without k), `d.get(k, dflt)`,
              `d[k]` / `del d[k]` (KeyError), iteration over the keys, `{k: e for k in ..}` ([pyr_cfg_of_items]).
              build_config changes the caller's dict in place before it rebinds `config`; only the returned dict is modelled.
   objects    [py_obj]: an object of which the translated code only passes the identity on (the QRCode items of a sequence). *)
From Coq Require Import ZArith List Bool Lia.
From Segno Require Import Base.PyLite Base.PySem.
Import ListNotations.
Open Scope Z_scope.

Definition pyr_unmodelled : exn := UnicodeErr.      (* the marker of Base/PySemExt.v *)

(* ------------------------------------------------------------------ str *)
Fixpoint pyr_str_eqb (a b : list Z) : bool :=
  match a, b with
  | [], [] => true
  | x :: a', y :: b' => (x =? y) && pyr_str_eqb a' b'
  | _, _ => false
  end.
Definition pyr_str_in (k : list Z) (l : list (list Z)) : bool := existsb (pyr_str_eqb k) l.

Definition pyr_lower_cp (c : Z) : Z := if (65 <=? c) && (c <=? 90) then c + 32 else c.
Definition pyr_lower (s : list Z) : list Z := map pyr_lower_cp s.

Fixpoint pyr_starts_with (p l : list Z) : bool :=
  match p, l with
  | [], _ => true
  | x :: p', y :: l' => (x =? y) && pyr_starts_with p' l'
  | _ :: _, [] => false
  end.
(* s.rfind(sub): the highest index at which sub occurs in s, -1 if it does not occur *)
Fixpoint pyr_rfind_aux (s sub : list Z) (pos last : Z) : Z :=
  match s with
  | [] => if pyr_starts_with sub [] then pos else last
  | _ :: r => pyr_rfind_aux r sub (pos + 1) (if pyr_starts_with sub s then pos else last)
  end.
Definition pyr_rfind (s sub : list Z) : Z := pyr_rfind_aux s sub 0 (-1).

(* ------------------------------------------------------------------ str(int), format(int, spec) *)
Fixpoint pyr_dec_digits (fuel : nat) (n : Z) (acc : list Z) : list Z :=
  match fuel with
  | O => acc
  | S f => if n <? 10 then (48 + n) :: acc else pyr_dec_digits f (n / 10) ((48 + n mod 10) :: acc)
  end.
Definition pyr_str_nat (n : Z) : list Z := pyr_dec_digits (S (Z.to_nat (Z.log2 n))) n [].     (* 0 <= n *)
Definition pyr_str_int (n : Z) : list Z := if n <? 0 then 45 :: pyr_str_nat (- n) else pyr_str_nat n.

Definition pyr_is_digit (c : Z) : bool := (48 <=? c) && (c <=? 57).
Definition pyr_digits_val (ds : list Z) : Z := fold_left (fun acc c => acc * 10 + (c - 48)) ds 0.

(* sign-aware zero padding (`0<width>`) and right alignment with spaces (`<width>`) of a decimal int *)
Definition pyr_pad_zero (w n : Z) : list Z :=
  let ds := pyr_str_nat (Z.abs n) in
  let sign := if n <? 0 then [45] else [] in
  sign ++ repeat 48 (Z.to_nat (w - lenZ sign - lenZ ds)) ++ ds.
Definition pyr_pad_space (w n : Z) : list Z :=
  let s := pyr_str_int n in repeat 32 (Z.to_nat (w - lenZ s)) ++ s.

Definition pyr_spec_body (spec : list Z) : list Z :=
  match rev spec with 100 :: r => rev r | _ => spec end.          (* a trailing 'd' *)
Definition pyr_fmt_int_spec (spec : list Z) (n : Z) : res (list Z) :=
  match pyr_spec_body spec with
  | [] => Ok (pyr_str_int n)
  | 48 :: ds => if forallb pyr_is_digit ds && (Z.of_nat (length ds) <=? 6)
                then Ok (pyr_pad_zero (pyr_digits_val ds) n) else Err pyr_unmodelled
  | ds => if forallb pyr_is_digit ds && (Z.of_nat (length ds) <=? 6)
          then Ok (pyr_pad_space (pyr_digits_val ds) n) else Err pyr_unmodelled
  end.

(* ------------------------------------------------------------------ s.format(a0, a1, ..), int arguments *)
Inductive pyr_fstate := PFText | PFIndex (ds : list Z) | PFSpec (ds sp : list Z).

Definition pyr_field (ds sp : list Z) (args : list Z) : res (list Z) :=
  match ds with
  | [] => Err pyr_unmodelled                                       (* `{}`: automatic numbering *)
  | _ => if Z.of_nat (length ds) <=? 9
         then match nth_error args (Z.to_nat (pyr_digits_val ds)) with
              | Some a => pyr_fmt_int_spec sp a
              | None => Err IndexErr
              end
         else Err pyr_unmodelled
  end.

Fixpoint pyr_format_aux (st : pyr_fstate) (s : list Z) (args : list Z) {struct s} : res (list Z) :=
  match s with
  | [] => match st with PFText => Ok [] | _ => Err ValueError end
  | c :: r =>
      match st with
      | PFText =>
          if c =? 123 then
            match r with
            | c2 :: r2 => if c2 =? 123 then (do t <- pyr_format_aux PFText r2 args; Ok (123 :: t))
                          else pyr_format_aux (PFIndex []) r args
            | [] => Err ValueError
            end
          else if c =? 125 then
            match r with
            | c2 :: r2 => if c2 =? 125 then (do t <- pyr_format_aux PFText r2 args; Ok (125 :: t)) else Err ValueError
            | [] => Err ValueError
            end
          else (do t <- pyr_format_aux PFText r args; Ok (c :: t))
      | PFIndex ds =>
          if c =? 125 then (do f <- pyr_field ds [] args; do t <- pyr_format_aux PFText r args; Ok (f ++ t))
          else if c =? 58 then pyr_format_aux (PFSpec ds []) r args
          else if pyr_is_digit c then pyr_format_aux (PFIndex (ds ++ [c])) r args
          else Err pyr_unmodelled
      | PFSpec ds sp =>
          if c =? 125 then (do f <- pyr_field ds sp args; do t <- pyr_format_aux PFText r args; Ok (f ++ t))
          else if c =? 123 then Err pyr_unmodelled
          else pyr_format_aux (PFSpec ds (sp ++ [c])) r args
      end
  end.
Definition pyr_format (s : list Z) (args : list Z) : res (list Z) := pyr_format_aux PFText s args.

(* ------------------------------------------------------------------ the `out` argument *)
Inductive py_out := POStr (s : list Z) | POStream (name : option (list Z)).
Definition pyr_out_name (o : py_out) : res (list Z) :=
  match o with POStream (Some n) => Ok n | _ => Err AttributeErr end.
Definition pyr_out_str (e : exn) (o : py_out) : res (list Z) :=
  match o with POStr s => Ok s | POStream _ => Err e end.
Definition pyr_out_is_str (o : py_out) : bool := match o with POStr _ => true | POStream _ => false end.

Definition py_obj := Z.

(* enumerate(l, start=k) *)
Fixpoint pyr_enumerate_start {A} (k : Z) (l : list A) : list (Z * A) :=
  match l with [] => [] | x :: r => (k, x) :: pyr_enumerate_start (k + 1) r end.

(* ------------------------------------------------------------------ dicts with str keys *)
(* D[k] for a dict whose values are identified by their key *)
Definition pyr_strkey_get (k : list Z) (keys : list (list Z)) : res (list Z) :=
  if pyr_str_in k keys then Ok k else Err KeyErr.

Fixpoint pyr_assoc {A} (k : list Z) (d : list (list Z * A)) : option A :=
  match d with [] => None | (k', v) :: r => if pyr_str_eqb k k' then Some v else pyr_assoc k r end.
(* D.get(k, default) *)
Definition pyr_strdict_get_default {A} (d : list (list Z * A)) (k : list Z) (default : A) : A :=
  match pyr_assoc k d with Some v => v | None => default end.

Definition py_cfg := list (list Z * list Z).
Definition pyr_cfg_remove (c : py_cfg) (k : list Z) : py_cfg := filter (fun kv => negb (pyr_str_eqb k (fst kv))) c.
Definition pyr_cfg_get_default (c : py_cfg) (k default : list Z) : list Z := pyr_strdict_get_default c k default.
Definition pyr_cfg_pop (c : py_cfg) (k default : list Z) : list Z * py_cfg :=
  (pyr_cfg_get_default c k default, pyr_cfg_remove c k).
Fixpoint pyr_cfg_set (c : py_cfg) (k v : list Z) : py_cfg :=
  match c with
  | [] => [(k, v)]
  | (k', v') :: r => if pyr_str_eqb k k' then (k', v) :: r else (k', v') :: pyr_cfg_set r k v
  end.
Definition pyr_cfg_index (c : py_cfg) (k : list Z) : res (list Z) :=
  match pyr_assoc k c with Some v => Ok v | None => Err KeyErr end.
Definition pyr_cfg_del (c : py_cfg) (k : list Z) : res py_cfg :=
  match pyr_assoc k c with Some _ => Ok (pyr_cfg_remove c k) | None => Err KeyErr end.
Definition pyr_cfg_keys (c : py_cfg) : list (list Z) := map fst c.
Definition pyr_cfg_of_items (items : list (list Z * list Z)) : py_cfg :=
  fold_left (fun d kv => pyr_cfg_set d (fst kv) (snd kv)) items [].

(* ------------------------------------------------------------------ values given by their repr *)
Definition pyr_repr_None : list Z := [78; 111; 110; 101].
Definition pyr_repr_is_none (v : list Z) : bool := pyr_str_eqb v pyr_repr_None.
Definition pyr_repr_truthy (v : list Z) : bool :=
  negb (pyr_str_in v [[78; 111; 110; 101]; [70; 97; 108; 115; 101]; [48]; [48; 46; 48]; [45; 48; 46; 48]; [39; 39]; [91; 93]; [40; 41];
                      [123; 125]; [115; 101; 116; 40; 41]; [98; 39; 39]]).

(* ------------------------------------------------------------------ examples (expected values computed by CPython 3.12) *)
Example ex_rfind : (pyr_rfind [97; 46; 98; 46; 99] [46], pyr_rfind [97; 98; 99] [46], pyr_rfind [] [46],
                    pyr_rfind [97; 98; 99; 97; 98] [97; 98], pyr_rfind [97; 98; 99] []) = (3, -1, -1, 3, 3).
Proof. vm_compute. reflexivity. Qed.
Example ex_lower : pyr_lower [65; 98; 46; 90; 91; 96; 123] = [97; 98; 46; 122; 91; 96; 123].
Proof. vm_compute. reflexivity. Qed.
Example ex_str_int : (pyr_str_int 0, pyr_str_int 7, pyr_str_int 10, pyr_str_int 1234, pyr_str_int (-56))
                     = ([48], [55], [49; 48], [49; 50; 51; 52], [45; 53; 54]).
Proof. vm_compute. reflexivity. Qed.
(* 'x-{0:02d}-{1:02d}.svg'.format(3, 12) == 'x-03-12.svg' *)
Example ex_format_1 :
  pyr_format [120; 45; 123; 48; 58; 48; 50; 100; 125; 45; 123; 49; 58; 48; 50; 100; 125; 46; 115; 118; 103] [3; 12]
  = Ok [120; 45; 48; 51; 45; 49; 50; 46; 115; 118; 103].
Proof. vm_compute. reflexivity. Qed.
(* '{{x}}{1}{0:d}'.format(5, -7) == '{x}-75';  '{0:3d}|{1:03d}'.format(5, -7) == '  5|-07' *)
Example ex_format_2 :
  pyr_format [123; 123; 120; 125; 125; 123; 49; 125; 123; 48; 58; 100; 125] [5; -7] = Ok [123; 120; 125; 45; 55; 53]
  /\ pyr_format [123; 48; 58; 51; 100; 125; 124; 123; 49; 58; 48; 51; 100; 125] [5; -7] = Ok [32; 32; 53; 124; 45; 48; 55].
Proof. vm_compute. split; reflexivity. Qed.
(* '{', 'a}', '{0', '}{' : ValueError;  '{2}' : IndexError;  '{a}' (KeyError), '{}', '{0!r}', '{0.real}' : outside the fragment *)
Example ex_format_err :
  (pyr_format [123] [5; 7], pyr_format [97; 125] [5; 7], pyr_format [123; 48] [5; 7], pyr_format [125; 123] [5; 7],
   pyr_format [123; 50; 125] [5; 7])
  = (Err ValueError, Err ValueError, Err ValueError, Err ValueError, Err IndexErr)
  /\ (pyr_format [123; 97; 125] [5; 7], pyr_format [123; 125] [5; 7], pyr_format [123; 48; 33; 114; 125] [5; 7],
      pyr_format [123; 48; 46; 114; 101; 97; 108; 125] [5; 7])
     = (Err pyr_unmodelled, Err pyr_unmodelled, Err pyr_unmodelled, Err pyr_unmodelled).
Proof. vm_compute. split; reflexivity. Qed.
Example ex_truthy_empty : map pyr_repr_truthy [[123; 125]; [115; 101; 116; 40; 41]; [98; 39; 39]; [123; 49; 125]; [98; 39; 120; 39]]
                          = [false; false; false; true; true].       (* {} set() b'' {1} b'x' *)
Proof. vm_compute. reflexivity. Qed.
(* bool(v) for v = None False True 0 1 '' 'a' 0.0 -0.0 1.5 [] ['x'] () 'None' 'False' '0', each given by repr(v) *)
Example ex_truthy :
  map pyr_repr_truthy [[78; 111; 110; 101]; [70; 97; 108; 115; 101]; [84; 114; 117; 101]; [48]; [49]; [39; 39]; [39; 97; 39];
                       [48; 46; 48]; [45; 48; 46; 48]; [49; 46; 53]; [91; 93]; [91; 39; 120; 39; 93]; [40; 41];
                       [39; 78; 111; 110; 101; 39]; [39; 70; 97; 108; 115; 101; 39]; [39; 48; 39]]
  = [false; false; true; false; true; false; true; false; false; true; false; true; false; true; true; true].
Proof. vm_compute. reflexivity. Qed.
(* d = {'a': 1, 'b': 2}; d['a'] = 3 keeps the position, d['c'] = 4 appends, d.pop('a', 0) *)
Example ex_cfg :
  let d := [([97], [49]); ([98], [50])] in
  (pyr_cfg_set d [97] [51], pyr_cfg_set d [99] [52], pyr_cfg_pop d [97] [48], pyr_cfg_pop d [99] [48], pyr_cfg_del d [99])
  = ([([97], [51]); ([98], [50])], [([97], [49]); ([98], [50]); ([99], [52])], ([49], [([98], [50])]), ([48], d), Err KeyErr).
Proof. vm_compute. reflexivity. Qed.

(* ------------------------------------------------------------------ generic facts used by the bridge proofs *)
Lemma pyr_str_eqb_eq a : forall b, pyr_str_eqb a b = true <-> a = b.
Proof.
  induction a as [|x a IH]; intros [|y b]; cbn [pyr_str_eqb]; split; intros H; try reflexivity; try discriminate.
  - apply andb_true_iff in H. destruct H as [H1 H2]. apply Z.eqb_eq in H1. apply IH in H2. now subst.
  - injection H as -> ->. rewrite Z.eqb_refl. cbn. now apply IH.
Qed.
Lemma pyr_str_eqb_refl a : pyr_str_eqb a a = true.
Proof. now apply pyr_str_eqb_eq. Qed.
Lemma pyr_str_eqb_sym a b : pyr_str_eqb a b = pyr_str_eqb b a.
Proof.
  destruct (pyr_str_eqb a b) eqn:E1, (pyr_str_eqb b a) eqn:E2; try reflexivity.
  - apply pyr_str_eqb_eq in E1. subst. now rewrite pyr_str_eqb_refl in E2.
  - apply pyr_str_eqb_eq in E2. subst. now rewrite pyr_str_eqb_refl in E1.
Qed.
