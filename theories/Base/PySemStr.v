(* PySemStr: the additions to Base/PySem.v that the translated payload builders of segno/helpers.py need
   (build/gen/SrcHelpersEsc.v, SrcHelpersWifi.v, SrcHelpersMecard.v, SrcHelpersVcard.v, SrcHelpersMisc.v, written by
   gen/translate_helpers.py).

   str        A Python `str` is the [list Z] of its code points (the convention of Model/Color.v [str]).  A string
              constant of the source is written out as the list of its code points.  `a + b` / `a += b` is [++], `len` is
              [lenZ], `a == b` is [py_str_eqb], truthiness is "not empty" ([py_str_truthy]); for a str-or-None value
              truthiness is [py_ostr_truthy] (None and '' are falsy), `a == b` with b a str is [py_ostr_eqb] (None is
              different from every str), `a or b` is [py_ostr_or].
   narrowing  In the branch of `if x:` where the str-or-None variable x is truthy, x is a non-empty str: the translator
              opens that branch with `let x := py_ostr_get x` ([py_ostr_truthy_get]: under the test this is the value
              of x).  Nothing is narrowed in the other branch.
   str(x)     for x : str is x.  An object of which only `str(x)` / `format(x, '')` is observed (latitude / longitude of
              make_vcard_data: f'{lat}') is given by that string (translator type `strof`, also a [list Z]); `f'{x}'`
              of such an object-or-None is [py_strof_opt] ('None' for None).
   translate  `s.translate(table)` for a module-level dict `table` whose keys are ints and whose values are all str
              (dumped from the imported module in insertion order as [list (Z * list Z)]): every code point with an
              entry is replaced by the entry, every other one is kept ([py_str_translate]; `table[ord(c)]` raising
              LookupError means "unchanged").
   join       `sep.join(items)` for a list of str: [py_str_join].
   f-strings  `f'..{e}..'` is the concatenation of the constant parts and the formatted values; a str value stands
              for itself (`format(s, '')` is s).  A value with the format specification `.Nf` (N a literal) is
              [ext_format_fixed N x], a PARAMETER of the translated function (float.__format__ / Decimal.__format__
              are CPython library code); numbers are given by their exact decimal value [py_num].
   format     `'..{0}..{1}..'.format( *seq)`: the format string is parsed at translation time with CPython's own
              `string.Formatter().parse`; only plain positional fields `{k}` are accepted.  [py_str_format] reads the
              items of seq by index, IndexError when seq is too short (CPython: "Replacement index k out of range").
   rstrip     `s.rstrip(chars)` with a str argument: [py_str_rstrip] (trailing code points that occur in chars).
   methods    `x.upper()`, `x.encode(enc)`, `quote(b)` (urllib.parse.quote on bytes), `P.match(x)` for a compiled str
              pattern bound at module level are PARAMETERS of the translated functions ([ext_upper],
              [ext_encode], [ext_quote], [ext_<name>]); the bridge theorems state what they assume about them.
              An attribute that `str` does not have (`birthday.strftime`) raises AttributeError ([py_str_no_attr]);
              the translator checks `hasattr(str, name)` on the running CPython.
   any        `any(seq)` over a list of str-or-None values: [existsb py_ostr_truthy]. *)
From Coq Require Import ZArith List Bool Lia.
From Segno Require Import Base.PyLite Base.PySem.
Import ListNotations.
Open Scope Z_scope.

(* ------------------------------------------------------------------ str *)
Fixpoint py_str_eqb (a b : list Z) : bool :=
  match a, b with
  | [], [] => true
  | x :: a', y :: b' => (x =? y) && py_str_eqb a' b'
  | _, _ => false
  end.

Definition py_str_truthy (s : list Z) : bool := match s with [] => false | _ => true end.
Definition py_ostr_truthy (o : option (list Z)) : bool := match o with Some (_ :: _) => true | _ => false end.
Definition py_ostr_get (o : option (list Z)) : list Z := match o with Some s => s | None => [] end.
Definition py_ostr_eqb (o : option (list Z)) (b : list Z) : bool :=
  match o with Some s => py_str_eqb s b | None => false end.
Definition py_ostr_or (o : option (list Z)) (b : list Z) : list Z :=
  match o with Some (c :: s) => c :: s | _ => b end.

(* 'None' *)
Definition py_none_str : list Z := [78; 111; 110; 101].
Definition py_strof_opt (o : option (list Z)) : list Z := match o with Some s => s | None => py_none_str end.

(* the justification of the narrowing `let x := py_ostr_get x` in the truthy branch of `if x:` *)
Lemma py_ostr_truthy_get o : py_ostr_truthy o = true -> o = Some (py_ostr_get o) /\ py_ostr_get o <> [].
Proof. destruct o as [[|c s]|]; cbn; intros H; try discriminate; split; [reflexivity|discriminate]. Qed.

Lemma py_str_eqb_eq a : forall b, py_str_eqb a b = true <-> a = b.
Proof.
  induction a as [|x a IH]; intros [|y b]; cbn [py_str_eqb]; split; intros H; try reflexivity; try discriminate.
  - apply andb_true_iff in H. destruct H as [H1 H2]. apply Z.eqb_eq in H1. apply IH in H2. now subst.
  - injection H as -> ->. rewrite Z.eqb_refl. cbn. now apply IH.
Qed.

(* ------------------------------------------------------------------ str.translate(dict) *)
Definition py_str_translate (tbl : list (Z * list Z)) (s : list Z) : list Z :=
  flat_map (fun c => match assocZ c tbl with Some r => r | None => [c] end) s.

(* two dumps of a dict denote the same mapping (order of the entries aside): decidable for literal tables *)
Definition py_opt_str_eqb (a b : option (list Z)) : bool :=
  match a, b with Some x, Some y => py_str_eqb x y | None, None => true | _, _ => false end.
Definition py_tbl_equiv (t1 t2 : list (Z * list Z)) : bool :=
  forallb (fun k => py_opt_str_eqb (assocZ k t1) (assocZ k t2)) (map fst t1 ++ map fst t2).

Lemma assocZ_not_key {A} k : forall (t : list (Z * A)), ~ In k (map fst t) -> assocZ k t = None.
Proof.
  induction t as [|[k' v] r IH]; cbn [assocZ map fst In]; intros H; [reflexivity|].
  destruct (k =? k') eqn:E; [apply Z.eqb_eq in E; subst; exfalso; apply H; now left|].
  apply IH. intros Hin. apply H. now right.
Qed.

Lemma py_tbl_equiv_lookup t1 t2 : py_tbl_equiv t1 t2 = true -> forall k, assocZ k t1 = assocZ k t2.
Proof.
  intros H k. unfold py_tbl_equiv in H. rewrite forallb_forall in H.
  destruct (in_dec Z.eq_dec k (map fst t1 ++ map fst t2)) as [Hin|Hout].
  - specialize (H k Hin). destruct (assocZ k t1) as [x|], (assocZ k t2) as [y|]; cbn in H; try discriminate; try reflexivity.
    apply py_str_eqb_eq in H. now subst.
  - rewrite !assocZ_not_key; [reflexivity| |]; intros Hin; apply Hout, in_or_app; [now right|now left].
Qed.

Lemma py_str_translate_equiv t1 t2 s : py_tbl_equiv t1 t2 = true -> py_str_translate t1 s = py_str_translate t2 s.
Proof.
  intros H. unfold py_str_translate. induction s as [|c r IH]; cbn [flat_map]; [reflexivity|].
  rewrite (py_tbl_equiv_lookup t1 t2 H c), IH. reflexivity.
Qed.

(* ------------------------------------------------------------------ sep.join(list of str) *)
Fixpoint py_str_join (sep : list Z) (l : list (list Z)) : list Z :=
  match l with
  | [] => []
  | x :: r => match r with [] => x | _ => x ++ sep ++ py_str_join sep r end
  end.

(* ------------------------------------------------------------------ '..{0}..{1}..'.format( *seq) *)
(* the parsed format string: literal text (inl) and positional replacement fields (inr k) *)
Fixpoint py_str_format (parts : list (list Z + Z)) (args : list (list Z)) : res (list Z) :=
  match parts with
  | [] => Ok []
  | inl t :: r => do rest <- py_str_format r args; Ok (t ++ rest)
  | inr k :: r =>
      match (if k <? 0 then None else nth_error args (Z.to_nat k)) with
      | Some a => do rest <- py_str_format r args; Ok (a ++ rest)
      | None => Err IndexErr
      end
  end.

(* ------------------------------------------------------------------ s.rstrip(chars) *)
Fixpoint py_str_rstrip (s chars : list Z) : list Z :=
  match s with
  | [] => []
  | x :: r => match py_str_rstrip r chars with
              | [] => if memZ x chars then [] else [x]
              | r' => x :: r'
              end
  end.

(* ------------------------------------------------------------------ attribute that str does not have *)
Definition py_str_no_attr (s : list Z) : res (list Z) := Err AttributeErr.

(* ------------------------------------------------------------------ numbers given by their exact decimal value *)
(* float / int / Decimal: +-mant / 10^scale (every float is such a decimal: Decimal(f).as_tuple()), nan, +-inf *)
Inductive py_num := PyFin (neg : bool) (mant scale : Z) | PyNan | PyInf (neg : bool).
