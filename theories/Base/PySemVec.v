(* PySemVec: the additions to Base/PySem*.v that the translated "operator" writers of segno/writers.py need
   (build/gen/SrcVecCommon.v, SrcVecEps.v, SrcVecPdf.v, SrcVecTex.v, written by gen/translate_vector.py): write_eps,
   write_pdf, write_tex.  Hand-written and trusted like Base/PySem.v (DESIGN.md 11.6 / 11.17).

   numbers    `scale` (and everything computed from it: the page size, the PGF coordinates) is a Python int or a Python
              float.  [py_vnum]: [PVInt z] is the int z, [PVFlt q] a float whose EXACT value is the rational q -- the
              convention of Base/PySemGen.v (type Q) and Model/Vector.v (pynum), with the int / float distinction kept,
              because `str()` prints the two differently.  `+ - *` on two ints is the int operation; as soon as one
              operand is a float the result is a float with the exact value of the operation ([py_vnum_bin]): this IS
              Python while the binary64 operation does not round (n + 0.5, n * 1.5, n * 2.25 for the sizes of QR
              symbols ...), and is the stated idealisation otherwise -- as in PySemGen.v.  A float LITERAL of the source
              that meets an int / such a number (`... - .5`) is its exact rational value.  `int(x)` truncates toward
              zero, `x != 1` compares the exact values.
   str(float) `str(x)` / `f'{x}'` of such a number: an int prints as [py_str_int]; for a float CPython prints the shortest
              decimal string that reads back to the same binary64 value -- not modelled: [ext] is a PARAMETER
              `ext_q_repr : Q -> list Z` of every translated function that formats such a number, applied to the REDUCED
              fraction (a float value has one repr, whatever fraction denotes it).
   lines      utils.matrix_to_lines is translated over Q (SrcUtilsIter.v): its items are [[x1; y]; [x2; y]] with the int /
              float distinction erased.  gen/translate_vector.py recovers it by an abstract interpretation of the
              CURRENT source of matrix_to_lines over the domain "int unless one of these parameters is a float" (result,
              today: x1, x2 are floats iff `x` is; y is a float iff `y` or `incby` is) and emits [py_lines_tag fx fy],
              fx / fy computed from the arguments of the call: an int coordinate q becomes [PVInt (py_int_q q)] (exact:
              q is an integer), a float one [PVFlt q].  The shape test (ValueError) is the unpacking
              `(x1, y1), (x2, y2) = item`.
   format     `format(n, '[+]0<w>d')` for an int ([py_fmt_0d]): sign ('-', or '+' when asked for), then zeros, then the
              digits, at least w characters in all.
   tell       `f.tell()` for the stream model of PySemIO.v (the list of what was written): the number of items written
              by THIS call so far -- the file position if the stream was at position 0 when the writer was called (a new
              file, a fresh BytesIO; what Model/Vector.v pdf_file assumes).
   either     a variable that holds values of two unrelated types on different paths (`stroke_color = dark if .. else
              <tuple of floats>`) is a [sum]; an operation that the translator only knows for one side gives
              [Err py_unmodelled] on the other (PySemExt.v: a statement `.. = Ok v` stays exact, the marker is never
              caught). *)
From Coq Require Import ZArith QArith List Bool Lia.
From Segno Require Import Base.PyLite Base.PySem Base.PySemExt Base.PySemGen Base.PySemIO Base.PySemSeg Base.PySemColor.
Import ListNotations.
Open Scope Z_scope.

(* ------------------------------------------------------------------ numbers: int or float (exact value) *)
Inductive py_vnum := PVInt (z : Z) | PVFlt (q : Q).
Definition py_vnum_q (a : py_vnum) : Q := match a with PVInt z => inject_Z z | PVFlt q => q end.
Definition py_vnum_is_float (a : py_vnum) : bool := match a with PVInt _ => false | PVFlt _ => true end.
Definition py_vnum_bin (fz : Z -> Z -> Z) (fq : Q -> Q -> Q) (a b : py_vnum) : py_vnum :=
  match a, b with
  | PVInt x, PVInt y => PVInt (fz x y)
  | _, _ => PVFlt (fq (py_vnum_q a) (py_vnum_q b))
  end.
Definition py_vnum_add := py_vnum_bin Z.add Qplus.
Definition py_vnum_sub := py_vnum_bin Z.sub Qminus.
Definition py_vnum_mul := py_vnum_bin Z.mul Qmult.
(* int(x) *)
Definition py_vnum_int (a : py_vnum) : Z := match a with PVInt z => z | PVFlt q => py_int_q q end.
(* a == b *)
Definition py_vnum_eqb (a b : py_vnum) : bool := py_q_eq (py_vnum_q a) (py_vnum_q b).
(* str(x), f'{x}' *)
Definition py_vnum_str (ext : Q -> list Z) (a : py_vnum) : list Z :=
  match a with PVInt z => py_str_int z | PVFlt q => ext (Qred q) end.

(* ------------------------------------------------------------------ the items of utils.matrix_to_lines, typed again *)
Definition py_vnum_tag (is_float : bool) (q : Q) : py_vnum := if is_float then PVFlt q else PVInt (py_int_q q).
Definition py_line_tag (fx fy : bool) (l : list (list Q)) : res ((py_vnum * py_vnum) * (py_vnum * py_vnum)) :=
  match l with
  | [[x1; y1]; [x2; y2]] => Ok ((py_vnum_tag fx x1, py_vnum_tag fy y1), (py_vnum_tag fx x2, py_vnum_tag fy y2))
  | _ => Err ValueError
  end.
(* the generator call stays unevaluated (res): it runs when it is consumed *)
Definition py_lines_tag (fx fy : bool) (g : res (list (list (list Q)))) : res (list ((py_vnum * py_vnum) * (py_vnum * py_vnum))) :=
  do ls <- g; py_seq_res (map (py_line_tag fx fy) ls).

(* ------------------------------------------------------------------ format(n, '[+]0<w>d') *)
Definition py_fmt_0d (plus : bool) (width n : Z) : list Z :=
  let sign := if n <? 0 then [45] else if plus then [43] else [] in
  let ds := py_str_int (Z.abs n) in
  sign ++ repeat 48 (Z.to_nat (width - lenZ sign - lenZ ds)) ++ ds.

(* ------------------------------------------------------------------ f.tell() *)
Definition py_tell (f : list Z) : Z := lenZ f.

(* ------------------------------------------------------------------ checked against CPython 3.12 on examples *)
(* format(5, '+03d') '+05', format(-5, '+03d') '-05', format(12, '+03d') '+12', format(123, '+03d') '+123', format(0, '+03d') '+00',
   format(5, '02d') '05', format(-5, '02d') '-5', format(0, '02d') '00', format(-12, '02d') '-12', format(9, '010d') '0000000009',
   format(0, '05d') '00000', format(12345678901, '010d') '12345678901' *)
Example ex_fmt_0d :
  (map (py_fmt_0d true 3) [5; -5; 12; 123; 0], map (py_fmt_0d false 2) [5; -5; 0; -12], py_fmt_0d false 10 9, py_fmt_0d false 5 0,
   py_fmt_0d false 10 12345678901)
  = ([[43;48;53]; [45;48;53]; [43;49;50]; [43;49;50;51]; [43;48;48]], [[48;53]; [45;53]; [48;48]; [45;49;50]],
     [48;48;48;48;48;48;48;48;48;57], [48;48;48;48;48], [49;50;51;52;53;54;55;56;57;48;49]).
Proof. vm_compute. reflexivity. Qed.
(* 3 * 2 == 6 (int); 3 * 0.5 == 1.5 (float); 21 + 4 - 0.5 == 24.5; int(-1.5) == -1; 2.0 != 1; 1.0 == 1 *)
Example ex_vnum :
  (py_vnum_mul (PVInt 3) (PVInt 2), Qeq_bool (py_vnum_q (py_vnum_mul (PVInt 3) (PVFlt (1 # 2)))) (3 # 2),
   Qeq_bool (py_vnum_q (py_vnum_sub (py_vnum_add (PVInt 21) (PVInt 4)) (PVFlt (1 # 2)))) (49 # 2),
   py_vnum_int (PVFlt (-3 # 2)), py_vnum_eqb (PVFlt (2 # 1)) (PVInt 1), py_vnum_eqb (PVFlt (2 # 2)) (PVInt 1))
  = (PVInt 6, true, true, -1, false, true).
Proof. vm_compute. reflexivity. Qed.
Example ex_line_tag :
  py_line_tag false true [[inject_Z 4; 49 # 2]; [inject_Z 11; 49 # 2]]
  = Ok ((PVInt 4, PVFlt (49 # 2)), (PVInt 11, PVFlt (49 # 2))).
Proof. vm_compute. reflexivity. Qed.
