(* PySemApi: the additions to Base/PySem*.v that the translated API LAYER needs -- writers.as_png_data_uri / as_svg_data_uri,
   the serializer call of writers.save, segno.make / make_qr / make_micro / make_sequence and the methods of segno.QRCode --
   build/gen/SrcApiUri.v, SrcApiQr.v, written by gen/translate_api.py.
   Hand-written and trusted like Base/PySem.v (DESIGN.md 11.6 / 11.20).  Every name here starts with [pya_], [D], [PW] or [PD].

   dyn        The API layer passes most of its arguments on WITHOUT LOOKING AT THEM (`**kw`, `scale=scale`).  Such a value is
              a [py_dyn]: None, a bool, an int, a float (given by its exact rational value, the convention of PySemVec.py_vnum),
              a str (code points), a tuple of ints (a colour), or any other object ([DObj], identified by a tag).  The few
              operations the layer itself performs on such values are total on this type: truthiness ([pya_truthy]; an
              arbitrary object may define __bool__, so [DObj] gives the marker), `'..' + x` ([pya_str_add]: TypeError unless x is
              a str), use as a codec name ([pya_codec_name]).
   typed      The translated serializers are typed (scale : Z or py_vnum, border : option Z, colours : option py_color ..).  Where a
              dyn value reaches such a parameter it is read at that type by [pya_int] .. [pya_oocolor]; a value OUTSIDE the declared
              type (a float border, a colour tuple with a float) gives [Err pya_unmodelled], the marker of PySemExt.v with the same
              reading: `.. = Ok v` and `.. = Err e` with e <> the marker are exact statements about the Python run, the marker
              says nothing.  [pya_of_*] inject the typed values back (for the typed corollaries of the bridge theorems).
   **kw       A keyword dictionary is the association list [py_kw] of its items in insertion order.  The CALL PROTOCOL of
              `f(a1, .., an, k1=v1, .., **kw)` against `def f(p1, .., pm=dm, .., **rest)` is spelled out with four functions:
              [pya_kw_merge] (explicit keywords followed by **kw: a key given twice is TypeError), [pya_kw_check_pos] (a
              parameter bound positionally and again by keyword is TypeError), [pya_kw_arg k dflt d] (the parameter k: the value
              under k, else the default), [pya_kw_rest names d] (what goes to **rest: the items whose key is no parameter name) and
              [pya_kw_check_unexpected] (no **rest: any other key is TypeError).  All four TypeErrors are raised by the call
              itself, before the body of f runs.  `kw.pop(k, dflt)` is [pya_kw_pop], `kw.get(k, dflt)` is [pya_kw_arg].
   written    What a serializer wrote ([py_written]): bytes ('wb' writers), or text together with the encoding the stream was opened
              with ('wt' writers; None = no encoding argument).  Writing this into a BINARY stream (io.BytesIO, a GzipFile) is
              [pya_bin_write codec]: bytes are appended; text goes through `codecs.getwriter(encoding)` -- the codec is C code, the
              argument [codec : name -> text -> res bytes]; text without an encoding is TypeError (BytesIO.write(str)).
              `buff.getvalue()` is the content.  An io.BytesIO object has no `name` attribute: as an `out` argument it is
              [POStream None].
   dest       `out or sys.stdout` ([pya_or_stdout]): None and the empty str are falsy.
   base64     [pya_b64encode] is base64.b64encode (RFC 4648 section 4, standard alphabet, '=' padding), defined here and checked
              against CPython on the examples below; [pya_b64decode] inverts it ([pya_b64_roundtrip], for lists of bytes).
   QRCode     [py_qrcode]: the six slots of segno.QRCode (the translator checks QRCode.__slots__ against these names). *)
From Coq Require Import ZArith QArith List Bool Lia.
From Segno Require Import Base.PyLite Base.PySem Base.PySemExt Base.PySemGen Base.PySemIO Base.PySemVec Base.PySemRoute.
Import ListNotations.
Open Scope Z_scope.

Definition pya_unmodelled : exn := UnicodeErr.      (* the marker of Base/PySemExt.v *)

(* ------------------------------------------------------------------ values that are only passed on *)
Inductive py_dyn :=
| DNone
| DBool (b : bool)
| DInt (z : Z)
| DFlt (q : Q)
| DStr (s : list Z)
| DTup (parts : list Z)
| DObj (tag : Z).

(* bool(x) *)
Definition pya_truthy (d : py_dyn) : res bool :=
  match d with
  | DNone => Ok false
  | DBool b => Ok b
  | DInt z => Ok (negb (z =? 0))
  | DFlt q => Ok (negb (Qeq_bool q 0))
  | DStr s => Ok (negb (lenZ s =? 0))
  | DTup t => Ok (negb (lenZ t =? 0))
  | DObj _ => Err pya_unmodelled
  end.
(* '<str>' + x *)
Definition pya_str_add (a : list Z) (d : py_dyn) : res (list Z) :=
  match d with DStr s => Ok (a ++ s) | DObj _ => Err pya_unmodelled | _ => Err TypeErr end.
(* bytes.decode(x) / codecs.lookup(x): the codec name must be a str *)
Definition pya_codec_name (d : py_dyn) : res (list Z) :=
  match d with DStr s => Ok s | DObj _ => Err pya_unmodelled | _ => Err TypeErr end.

(* ---- a dyn value read at a declared type (outside the type: the marker) *)
Definition pya_int (d : py_dyn) : res Z := match d with DInt z => Ok z | _ => Err pya_unmodelled end.
Definition pya_oint (d : py_dyn) : res (option Z) :=
  match d with DNone => Ok None | DInt z => Ok (Some z) | _ => Err pya_unmodelled end.
Definition pya_bool (d : py_dyn) : res bool := match d with DBool b => Ok b | _ => Err pya_unmodelled end.
Definition pya_obool (d : py_dyn) : res (option bool) :=
  match d with DNone => Ok None | DBool b => Ok (Some b) | _ => Err pya_unmodelled end.
Definition pya_str (d : py_dyn) : res (list Z) := match d with DStr s => Ok s | _ => Err pya_unmodelled end.
Definition pya_ostr (d : py_dyn) : res (option (list Z)) :=
  match d with DNone => Ok None | DStr s => Ok (Some s) | _ => Err pya_unmodelled end.
Definition pya_vnum (d : py_dyn) : res py_vnum :=
  match d with DInt z => Ok (PVInt z) | DFlt q => Ok (PVFlt q) | _ => Err pya_unmodelled end.
Definition pya_ovnum (d : py_dyn) : res (option py_vnum) :=
  match d with DNone => Ok None | DInt z => Ok (Some (PVInt z)) | DFlt q => Ok (Some (PVFlt q)) | _ => Err pya_unmodelled end.
Definition pya_q (d : py_dyn) : res Q :=
  match d with DInt z => Ok (inject_Z z) | DFlt q => Ok q | _ => Err pya_unmodelled end.
Definition pya_color (d : py_dyn) : res py_color :=
  match d with DStr s => Ok (PyCStr s) | DTup t => Ok (PyCTuple t) | _ => Err pya_unmodelled end.
Definition pya_ocolor (d : py_dyn) : res (option py_color) :=
  match d with DNone => Ok None | DStr s => Ok (Some (PyCStr s)) | DTup t => Ok (Some (PyCTuple t)) | _ => Err pya_unmodelled end.
(* the colour options of @colorful: the default False means "not given" (`x is not False`), a given colour may be None *)
Definition pya_oocolor (d : py_dyn) : res (option (option py_color)) :=
  match d with
  | DBool false => Ok None
  | DNone => Ok (Some None)
  | DStr s => Ok (Some (Some (PyCStr s)))
  | DTup t => Ok (Some (Some (PyCTuple t)))
  | _ => Err pya_unmodelled
  end.
Definition pya_out (d : py_dyn) : res py_out := match d with DStr s => Ok (POStr s) | _ => Err pya_unmodelled end.
Definition pya_oout (d : py_dyn) : res (option py_out) :=
  match d with DNone => Ok None | DStr s => Ok (Some (POStr s)) | _ => Err pya_unmodelled end.

(* ---- and back *)
Definition pya_of_int (z : Z) : py_dyn := DInt z.
Definition pya_of_oint (o : option Z) : py_dyn := match o with None => DNone | Some z => DInt z end.
Definition pya_of_bool (b : bool) : py_dyn := DBool b.
Definition pya_of_obool (o : option bool) : py_dyn := match o with None => DNone | Some b => DBool b end.
Definition pya_of_str (s : list Z) : py_dyn := DStr s.
Definition pya_of_ostr (o : option (list Z)) : py_dyn := match o with None => DNone | Some s => DStr s end.
Definition pya_of_vnum (v : py_vnum) : py_dyn := match v with PVInt z => DInt z | PVFlt q => DFlt q end.
Definition pya_of_ovnum (o : option py_vnum) : py_dyn := match o with None => DNone | Some v => pya_of_vnum v end.
Definition pya_of_color (c : py_color) : py_dyn := match c with PyCStr s => DStr s | PyCTuple t => DTup t end.
Definition pya_of_ocolor (o : option py_color) : py_dyn := match o with None => DNone | Some c => pya_of_color c end.
Definition pya_of_oocolor (o : option (option py_color)) : py_dyn :=
  match o with None => DBool false | Some c => pya_of_ocolor c end.

(* ------------------------------------------------------------------ keyword dictionaries and the call protocol *)
Definition py_kw := list (list Z * py_dyn).

Definition pya_kw_find (k : list Z) (d : py_kw) : option py_dyn := pyr_assoc k d.
(* the parameter k of the callee / kw.get(k, dflt) *)
Definition pya_kw_arg (k : list Z) (dflt : py_dyn) (d : py_kw) : py_dyn :=
  match pya_kw_find k d with Some v => v | None => dflt end.
(* the items that are not bound to one of the named parameters (what `**rest` receives) *)
Definition pya_kw_rest (names : list (list Z)) (d : py_kw) : py_kw :=
  filter (fun kv => negb (pyr_str_in (fst kv) names)) d.
Definition pya_kw_has (names : list (list Z)) (d : py_kw) : bool := existsb (fun kv => pyr_str_in (fst kv) names) d.
(* f() got multiple values for argument 'p' *)
Definition pya_kw_check_pos (pos : list (list Z)) (d : py_kw) : res unit :=
  if pya_kw_has pos d then Err TypeErr else Ok tt.
(* f() got an unexpected keyword argument *)
Definition pya_kw_check_unexpected (names : list (list Z)) (d : py_kw) : res unit :=
  match pya_kw_rest names d with [] => Ok tt | _ :: _ => Err TypeErr end.
(* f(.., k1=v1, .., **kw): f() got multiple values for keyword argument 'k' *)
Definition pya_kw_merge (explicit kw : py_kw) : res py_kw :=
  if pya_kw_has (map fst explicit) kw then Err TypeErr else Ok (explicit ++ kw).
(* kw.pop(k, dflt): the value and the dict without k *)
Definition pya_kw_pop (d : py_kw) (k : list Z) (dflt : py_dyn) : py_dyn * py_kw := (pya_kw_arg k dflt d, pya_kw_rest [k] d).

(* ------------------------------------------------------------------ what was written; binary streams *)
Inductive py_written := PWBytes (b : list Z) | PWText (encoding : option (list Z)) (t : list Z).

Definition pya_bin_write (codec : list Z -> list Z -> res (list Z)) (buff : list Z) (w : py_written) : res (list Z) :=
  match w with
  | PWBytes b => Ok (buff ++ b)
  | PWText (Some e) t => do b <- codec e t; Ok (buff ++ b)
  | PWText None _ => Err TypeErr
  end.
Definition pya_bin_new : list Z := [].

(* `out or sys.stdout` *)
Inductive py_dest := PDOut (o : py_out) | PDStdout.
Definition pya_or_stdout (o : option py_out) : py_dest :=
  match o with
  | None => PDStdout
  | Some (POStr []) => PDStdout
  | Some x => PDOut x
  end.
Definition pya_is_none {A} (o : option A) : bool := match o with None => true | Some _ => false end.

(* bytes.decode('ascii') *)
Definition pya_decode_ascii (b : list Z) : res (list Z) :=
  if forallb (fun c => (0 <=? c) && (c <? 128)) b then Ok b else Err UnicodeErr.

(* ------------------------------------------------------------------ base64.b64encode (RFC 4648 section 4) *)
Definition pya_b64_char (v : Z) : Z :=
  if v <? 26 then 65 + v else if v <? 52 then 97 + (v - 26) else if v <? 62 then 48 + (v - 52) else if v =? 62 then 43 else 47.
Fixpoint pya_b64encode (b : list Z) : list Z :=
  match b with
  | [] => []
  | [x] => [pya_b64_char (x / 4); pya_b64_char (x mod 4 * 16); 61; 61]
  | [x; y] => [pya_b64_char (x / 4); pya_b64_char (x mod 4 * 16 + y / 16); pya_b64_char (y mod 16 * 4); 61]
  | x :: y :: z :: r =>
      pya_b64_char (x / 4) :: pya_b64_char (x mod 4 * 16 + y / 16) :: pya_b64_char (y mod 16 * 4 + z / 64)
      :: pya_b64_char (z mod 64) :: pya_b64encode r
  end.

Definition pya_b64_val (c : Z) : Z :=
  if (65 <=? c) && (c <=? 90) then c - 65 else if (97 <=? c) && (c <=? 122) then c - 97 + 26
  else if (48 <=? c) && (c <=? 57) then c - 48 + 52 else if c =? 43 then 62 else 63.
(* the inverse on well-formed input (groups of four characters, padding only in the last group) *)
Fixpoint pya_b64decode (s : list Z) : list Z :=
  match s with
  | a :: b :: c :: d :: r =>
      let va := pya_b64_val a in let vb := pya_b64_val b in
      if c =? 61 then [va * 4 + vb / 16]
      else let vc := pya_b64_val c in
           if d =? 61 then [va * 4 + vb / 16; vb mod 16 * 16 + vc / 4]
           else [va * 4 + vb / 16; vb mod 16 * 16 + vc / 4; vc mod 4 * 64 + pya_b64_val d] ++ pya_b64decode r
  | _ => []
  end.

Lemma pya_b64_val_char v : 0 <= v < 64 -> pya_b64_val (pya_b64_char v) = v /\ pya_b64_char v <> 61 /\ 0 <= pya_b64_char v < 128.
Proof.
  intros Hv. unfold pya_b64_char, pya_b64_val.
  destruct (v <? 26) eqn:E1; [apply Z.ltb_lt in E1|apply Z.ltb_ge in E1].
  { replace ((65 <=? 65 + v) && (65 + v <=? 90)) with true by (symmetry; apply andb_true_iff; split; apply Z.leb_le; lia). lia. }
  destruct (v <? 52) eqn:E2; [apply Z.ltb_lt in E2|apply Z.ltb_ge in E2].
  { replace ((65 <=? 97 + (v - 26)) && (97 + (v - 26) <=? 90)) with false
      by (symmetry; apply andb_false_iff; right; apply Z.leb_gt; lia).
    replace ((97 <=? 97 + (v - 26)) && (97 + (v - 26) <=? 122)) with true by (symmetry; apply andb_true_iff; split; apply Z.leb_le; lia).
    lia. }
  destruct (v <? 62) eqn:E3; [apply Z.ltb_lt in E3|apply Z.ltb_ge in E3].
  { replace ((65 <=? 48 + (v - 52)) && (48 + (v - 52) <=? 90)) with false
      by (symmetry; apply andb_false_iff; left; apply Z.leb_gt; lia).
    replace ((97 <=? 48 + (v - 52)) && (48 + (v - 52) <=? 122)) with false
      by (symmetry; apply andb_false_iff; left; apply Z.leb_gt; lia).
    replace ((48 <=? 48 + (v - 52)) && (48 + (v - 52) <=? 57)) with true by (symmetry; apply andb_true_iff; split; apply Z.leb_le; lia).
    lia. }
  destruct (v =? 62) eqn:E4; [apply Z.eqb_eq in E4; subst v; cbn; lia|apply Z.eqb_neq in E4].
  assert (v = 63) by lia. subst v. cbn. lia.
Qed.

Definition pya_is_bytes (b : list Z) : Prop := Forall (fun x => 0 <= x < 256) b.

Lemma pya_b64_roundtrip_aux : forall n b, (length b <= n)%nat -> pya_is_bytes b -> pya_b64decode (pya_b64encode b) = b.
Proof.
  induction n as [|n IH]; intros b Hlen Hb.
  - destruct b; [reflexivity|cbn in Hlen; lia].
  - destruct b as [|x [|y [|z r]]]; [reflexivity| | |].
    + apply Forall_inv in Hb. cbn [pya_b64encode pya_b64decode]. rewrite Z.eqb_refl.
      destruct (pya_b64_val_char (x / 4)) as [-> _]; [split; [apply Z.div_pos|apply Z.div_lt_upper_bound]; lia|].
      destruct (pya_b64_val_char (x mod 4 * 16)) as [-> _]; [pose proof (Z.mod_pos_bound x 4); lia|].
      f_equal. rewrite Z.div_mul by lia. pose proof (Z.div_mod x 4). lia.
    + pose proof (Forall_inv Hb) as Hx. pose proof (Forall_inv (Forall_inv_tail Hb)) as Hy. cbv beta in Hx, Hy.
      cbn [pya_b64encode pya_b64decode]. rewrite Z.eqb_refl.
      assert (H2 : 0 <= y mod 16 * 4 < 64) by (pose proof (Z.mod_pos_bound y 16); lia).
      assert (H1 : 0 <= x mod 4 * 16 + y / 16 < 64).
      { pose proof (Z.mod_pos_bound x 4). assert (0 <= y / 16 < 16) by (split; [apply Z.div_pos|apply Z.div_lt_upper_bound]; lia). lia. }
      destruct (pya_b64_val_char _ H2) as (E2 & N2 & _). destruct (pya_b64_val_char _ H1) as (E1 & _).
      destruct (pya_b64_val_char (x / 4)) as [E0 _]; [split; [apply Z.div_pos|apply Z.div_lt_upper_bound]; lia|].
      apply Z.eqb_neq in N2. rewrite N2, E0, E1, E2.
      f_equal; [|f_equal].
      * replace ((x mod 4 * 16 + y / 16) / 16) with (x mod 4).
        { pose proof (Z.div_mod x 4). lia. }
        symmetry. rewrite Z.add_comm. rewrite Z.div_add by lia.
        rewrite (Z.div_small (y / 16)); [lia|]. split; [apply Z.div_pos|apply Z.div_lt_upper_bound]; lia.
      * replace ((x mod 4 * 16 + y / 16) mod 16) with (y / 16).
        { rewrite Z.div_mul by lia. pose proof (Z.div_mod y 16). lia. }
        symmetry. rewrite Z.add_comm, Z.mod_add by lia. apply Z.mod_small.
        split; [apply Z.div_pos|apply Z.div_lt_upper_bound]; lia.
    + pose proof (Forall_inv Hb) as Hx. pose proof (Forall_inv (Forall_inv_tail Hb)) as Hy.
      pose proof (Forall_inv (Forall_inv_tail (Forall_inv_tail Hb))) as Hz. cbv beta in Hx, Hy, Hz.
      assert (Hr : pya_is_bytes r) by (apply Forall_inv_tail, Forall_inv_tail, Forall_inv_tail in Hb; exact Hb).
      cbn [pya_b64encode pya_b64decode].
      assert (H0 : 0 <= x / 4 < 64) by (split; [apply Z.div_pos|apply Z.div_lt_upper_bound]; lia).
      assert (Hy16 : 0 <= y / 16 < 16) by (split; [apply Z.div_pos|apply Z.div_lt_upper_bound]; lia).
      assert (Hz64 : 0 <= z / 64 < 4) by (split; [apply Z.div_pos|apply Z.div_lt_upper_bound]; lia).
      assert (H1 : 0 <= x mod 4 * 16 + y / 16 < 64) by (pose proof (Z.mod_pos_bound x 4); lia).
      assert (H2 : 0 <= y mod 16 * 4 + z / 64 < 64) by (pose proof (Z.mod_pos_bound y 16); lia).
      assert (H3 : 0 <= z mod 64 < 64) by (apply Z.mod_pos_bound; lia).
      destruct (pya_b64_val_char _ H0) as (E0 & _). destruct (pya_b64_val_char _ H1) as (E1 & _).
      destruct (pya_b64_val_char _ H2) as (E2 & N2 & _). destruct (pya_b64_val_char _ H3) as (E3 & N3 & _).
      apply Z.eqb_neq in N2, N3. rewrite N2, N3, E0, E1, E2, E3.
      rewrite IH; [|cbn in Hlen; lia|exact Hr].
      cbn [app]. f_equal; [|f_equal; [|f_equal]].
      * replace ((x mod 4 * 16 + y / 16) / 16) with (x mod 4).
        { pose proof (Z.div_mod x 4). lia. }
        symmetry. rewrite Z.add_comm. rewrite Z.div_add by lia. rewrite (Z.div_small (y / 16)); lia.
      * replace ((x mod 4 * 16 + y / 16) mod 16) with (y / 16).
        2:{ symmetry. rewrite Z.add_comm, Z.mod_add by lia. apply Z.mod_small. lia. }
        replace ((y mod 16 * 4 + z / 64) / 4) with (y mod 16).
        { pose proof (Z.div_mod y 16). lia. }
        symmetry. rewrite Z.add_comm. rewrite Z.div_add by lia. rewrite (Z.div_small (z / 64)); lia.
      * replace ((y mod 16 * 4 + z / 64) mod 4) with (z / 64).
        { pose proof (Z.div_mod z 64). lia. }
        symmetry. rewrite Z.add_comm, Z.mod_add by lia. apply Z.mod_small. lia.
Qed.

(* decoding the base64 text gives the bytes back: two byte strings with the same base64 text are equal *)
Theorem pya_b64_roundtrip b : pya_is_bytes b -> pya_b64decode (pya_b64encode b) = b.
Proof. apply (pya_b64_roundtrip_aux (length b)). lia. Qed.

Lemma pya_b64_ascii_aux : forall n b, (length b <= n)%nat -> pya_is_bytes b ->
  forallb (fun c => (0 <=? c) && (c <? 128)) (pya_b64encode b) = true.
Proof.
  assert (Hc : forall v, 0 <= v < 64 -> (0 <=? pya_b64_char v) && (pya_b64_char v <? 128) = true).
  { intros v Hv. destruct (pya_b64_val_char v Hv) as (_ & _ & Hr). apply andb_true_iff. split; [apply Z.leb_le|apply Z.ltb_lt]; lia. }
  induction n as [|n IH]; intros b Hlen Hb.
  - destruct b; [reflexivity|cbn in Hlen; lia].
  - destruct b as [|x [|y [|z r]]]; [reflexivity| | |].
    + apply Forall_inv in Hb. cbn [pya_b64encode forallb].
      rewrite !Hc; [reflexivity| |]; [pose proof (Z.mod_pos_bound x 4); lia|split; [apply Z.div_pos|apply Z.div_lt_upper_bound]; lia].
    + pose proof (Forall_inv Hb) as Hx. pose proof (Forall_inv (Forall_inv_tail Hb)) as Hy. cbv beta in Hx, Hy.
      assert (Hy16 : 0 <= y / 16 < 16) by (split; [apply Z.div_pos|apply Z.div_lt_upper_bound]; lia).
      cbn [pya_b64encode forallb]. rewrite !Hc; [reflexivity| | |].
      * pose proof (Z.mod_pos_bound y 16). lia.
      * pose proof (Z.mod_pos_bound x 4). lia.
      * split; [apply Z.div_pos|apply Z.div_lt_upper_bound]; lia.
    + pose proof (Forall_inv Hb) as Hx. pose proof (Forall_inv (Forall_inv_tail Hb)) as Hy.
      pose proof (Forall_inv (Forall_inv_tail (Forall_inv_tail Hb))) as Hz. cbv beta in Hx, Hy, Hz.
      assert (Hr : pya_is_bytes r) by (apply Forall_inv_tail, Forall_inv_tail, Forall_inv_tail in Hb; exact Hb).
      assert (Hy16 : 0 <= y / 16 < 16) by (split; [apply Z.div_pos|apply Z.div_lt_upper_bound]; lia).
      assert (Hz64 : 0 <= z / 64 < 4) by (split; [apply Z.div_pos|apply Z.div_lt_upper_bound]; lia).
      cbn [pya_b64encode forallb]. rewrite IH; [|cbn in Hlen; lia|exact Hr]. rewrite !Hc; [reflexivity| | | |].
      * apply Z.mod_pos_bound; lia.
      * pose proof (Z.mod_pos_bound y 16). lia.
      * pose proof (Z.mod_pos_bound x 4). lia.
      * split; [apply Z.div_pos|apply Z.div_lt_upper_bound]; lia.
Qed.
(* .decode('ascii') of the base64 text never fails *)
Theorem pya_b64_decode_ascii b : pya_is_bytes b -> pya_decode_ascii (pya_b64encode b) = Ok (pya_b64encode b).
Proof. intros Hb. unfold pya_decode_ascii. rewrite (pya_b64_ascii_aux (length b)); [reflexivity|lia|exact Hb]. Qed.

(* ------------------------------------------------------------------ segno.QRCode *)
Record py_qrcode := { qr_matrix : list (list Z); qr_mask : Z; qr__version : Z; qr__error : option Z; qr__mode : option Z;
                      qr__matrix_size : list Z }.

(* map(f, xs) consumed to its end: the results in order, the first exception wins *)
Definition pya_map_res {A B} (f : A -> res B) (xs : list A) : res (list B) := py_seq_res (map f xs).

(* ------------------------------------------------------------------ checked against CPython 3.12 on examples *)
(* base64.b64encode(b'') .. b'foobar' (the test vectors of RFC 4648 section 10), bytes with 62 / 63 sextets, 17 random bytes *)
Example ex_b64 :
  (pya_b64encode [], pya_b64encode [102], pya_b64encode [102; 111], pya_b64encode [102; 111; 111],
   pya_b64encode [102; 111; 111; 98], pya_b64encode [102; 111; 111; 98; 97], pya_b64encode [102; 111; 111; 98; 97; 114])
  = ([], [90; 103; 61; 61], [90; 109; 56; 61], [90; 109; 57; 118], [90; 109; 57; 118; 89; 103; 61; 61],
     [90; 109; 57; 118; 89; 109; 69; 61], [90; 109; 57; 118; 89; 109; 70; 121]).
Proof. reflexivity. Qed.
Example ex_b64_2 :
  (pya_b64encode [0; 255; 254; 253], pya_b64encode [251; 239; 190], pya_b64encode [255], pya_b64encode [0; 0],
   pya_b64encode [68; 32; 130; 60; 253; 230; 241; 194; 107; 48; 249; 14; 199; 221; 1; 228; 136])
  = ([65; 80; 47; 43; 47; 81; 61; 61], [43; 43; 43; 43], [47; 119; 61; 61], [65; 65; 65; 61],
     [82; 67; 67; 67; 80; 80; 51; 109; 56; 99; 74; 114; 77; 80; 107; 79; 120; 57; 48; 66; 53; 73; 103; 61]).
Proof. reflexivity. Qed.
Example ex_b64_decode :
  (pya_b64decode [90; 109; 57; 118; 89; 109; 69; 61], pya_b64decode [65; 80; 47; 43; 47; 81; 61; 61], pya_b64decode [])
  = ([102; 111; 111; 98; 97], [0; 255; 254; 253], []).
Proof. reflexivity. Qed.
(* def f(a, scale=1, **kw): ..;  f(0, border=2, **{'x': 3}) binds scale=1 and kw={'border': 2, 'x': 3};
   f(0, scale=2, **{'scale': 3}) and f(0, **{'a': 1}) are TypeError; def g(a, scale=1) with g(0, x=3) is TypeError *)
Example ex_kw :
  let scale := [115; 99; 97; 108; 101] in let border := [98; 111; 114; 100; 101; 114] in let x := [120] in let a := [97] in
  (do d <- pya_kw_merge [(border, DInt 2)] [(x, DInt 3)]; Ok (pya_kw_arg scale (DInt 1) d, pya_kw_rest [a; scale] d),
   pya_kw_merge [(scale, DInt 2)] [(scale, DInt 3)],
   pya_kw_check_pos [a] [(a, DInt 1)],
   pya_kw_check_unexpected [a; scale] [(x, DInt 3)],
   pya_kw_pop [(x, DInt 3); (scale, DInt 5)] scale (DInt 9), pya_kw_pop [(x, DInt 3)] scale (DInt 9))
  = (Ok (DInt 1, [(border, DInt 2); (x, DInt 3)]), Err TypeErr, Err TypeErr, Err TypeErr,
     (DInt 5, [(x, DInt 3)]), (DInt 9, [(x, DInt 3)])).
Proof. reflexivity. Qed.
(* bool(0.0), bool(''), bool((0,)), ';charset=' + None, (None or sys.stdout), ('' or sys.stdout), ('a.txt' or sys.stdout) *)
Example ex_dyn :
  (pya_truthy (DFlt 0), pya_truthy (DStr []), pya_truthy (DTup [0]), pya_str_add [59] DNone, pya_str_add [59] (DStr [97]),
   pya_or_stdout None, pya_or_stdout (Some (POStr [])), pya_or_stdout (Some (POStr [97])))
  = (Ok false, Ok false, Ok true, Err TypeErr, Ok [59; 97], PDStdout, PDStdout, PDOut (POStr [97])).
Proof. reflexivity. Qed.
