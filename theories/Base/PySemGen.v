(* PySemGen: the additions to Base/PySem.v that the translated functions of segno/utils.py need
   (build/gen/SrcUtils.v, SrcUtilsIter.v, SrcUtilsVerbose.v, written by gen/translate_utils.py).

   Numbers.  `scale`, `x`, `y`, `incby` may be Python ints or floats.  They are translated over Q: an int n is
             [inject_Z n], a (finite) float is its exact rational value; `+ - *` on such numbers are Qplus / Qminus /
             Qmult (exact for ints; for floats exact as long as the float operation does not round, which holds for
             the values the writers pass: n + .5, n * 1.0 ...).  NaN and the infinities are outside the domain.
             Comparisons are decided on the exact values, int(x) truncates toward zero.

   Generators.  A function whose body contains `yield` is translated as the function that returns the list of all
             yielded items: `yield e` appends e to a hidden list, falling off the end (or a bare `return`) returns
             that list.  The result [Ok items] means the generator, consumed to its end, produced exactly these
             items; [Err e] means it raised e at some point of the consumption (items delivered before the
             exception are not recorded; the code before the first `yield` runs at the first `next()`, not at the
             call).

   itertools.  repeat(x, n) is the list of n copies (none for n <= 0); chain.from_iterable of a finite iterable of
             finite iterables, consumed by tuple(...), is the concatenation. *)
From Coq Require Import ZArith QArith List Bool Lia.
From Segno Require Import Base.PyLite Base.PySem.
Import ListNotations.
Open Scope Z_scope.

(* int(x): truncation toward zero *)
Definition py_int_q (q : Q) : Z := Z.quot (Qnum q) (Zpos (Qden q)).

(* a <= b, a < b, a == b on exact values *)
Definition py_q_le (a b : Q) : bool := Qle_bool a b.
Definition py_q_lt (a b : Q) : bool := negb (Qle_bool b a).
Definition py_q_eq (a b : Q) : bool := Qeq_bool a b.

(* itertools.repeat(x, n), tuple(chain.from_iterable(xs)) *)
Definition py_it_repeat {A} (x : A) (n : Z) : list A := repeat x (Z.to_nat n).
Definition py_chain {A} (l : list (list A)) : list A := concat l.

(* matrix[i][j] as seen by the closure get_bit of matrix_iter_verbose, which SrcFuns.v translates as a total
   function of two tables (gen/translate.py, legacy total mode): the cell inside the matrix; the closure only
   evaluates it under the test 0 <= i < height and 0 <= j < width. *)
Definition py_tab (m : list (list Z)) (i j : Z) : Z := nth (Z.to_nat j) (nth (Z.to_nat i) m []) 0.

(* ------------------------------------------------------------------ generic facts used by the bridge proofs *)
Lemma py_int_q_inject (z : Z) : py_int_q (inject_Z z) = z.
Proof. unfold py_int_q, inject_Z. cbn [Qnum Qden]. apply Z.quot_1_r. Qed.

(* a loop whose body never raises, returns or breaks is a fold *)
Lemma py_for_fold {X S} (xs : list X) (body : X -> S -> res (ctl void S)) (step : X -> S -> S) :
  (forall x s, In x xs -> body x s = Ok (CNext (step x s))) ->
  forall s, py_for xs body s = Ok (inr (fold_left (fun s x => step x s) xs s)).
Proof.
  induction xs as [|x r IH]; intros Hb s; cbn [py_for fold_left]; [reflexivity|].
  rewrite (Hb x s (or_introl eq_refl)). apply IH. intros y t Hy. apply Hb. now right.
Qed.

(* a loop that only appends to the list of yielded items *)
Lemma fold_left_app_flat_map {X B} (g : X -> list B) (xs : list X) : forall acc,
  fold_left (fun acc x => acc ++ g x) xs acc = acc ++ flat_map g xs.
Proof.
  induction xs as [|x r IH]; intros acc; cbn [fold_left flat_map]; [now rewrite app_nil_r|].
  rewrite IH. now rewrite app_assoc.
Qed.

Lemma py_for_yield {X B} (xs : list X) (body : X -> list B -> res (ctl void (list B))) (g : X -> list B) :
  (forall x acc, In x xs -> body x acc = Ok (CNext (acc ++ g x))) ->
  forall acc, py_for xs body acc = Ok (inr (acc ++ flat_map g xs)).
Proof.
  intros Hb acc. rewrite (py_for_fold xs body (fun x acc => acc ++ g x) Hb).
  now rewrite fold_left_app_flat_map.
Qed.

Lemma py_seq_res_map_ok {X A} (f : X -> res A) (g : X -> A) (xs : list X) :
  (forall x, In x xs -> f x = Ok (g x)) -> py_seq_res (map f xs) = Ok (map g xs).
Proof.
  induction xs as [|x r IH]; intros Hf; cbn [map py_seq_res]; [reflexivity|].
  rewrite (Hf x (or_introl eq_refl)). cbn [bind]. rewrite IH; [reflexivity|].
  intros y Hy. apply Hf. now right.
Qed.

Lemma flat_map_repeat_const {A B} (xs : list A) (y : B) :
  flat_map (fun _ => [y]) xs = repeat y (length xs).
Proof. induction xs as [|x r IH]; cbn; [reflexivity|]. now rewrite IH. Qed.
