(* PySemSvg: the additions to Base/PySem*.v that the translated SVG serializer of segno/writers.py needs
   (build/gen/SrcSvg.v, written by gen/translate_svg.py): write_svg with its nested helpers svg_color and
   matrix_to_lines_verbose, and the wrapper that @colorful puts around it.  Hand-written and trusted like Base/PySem.v
   (DESIGN.md 11.6 / 11.18).

   colours as keys   The dicts `xy`, `coordinates`, `paths` of write_svg are keyed by colours: None, a str or a tuple of ints
              ([option py_color], PySemIO.v).  Python compares keys with `==` (after the hash): two strs / two tuples of ints
              are equal iff their items are, a str never equals a tuple, None only equals None ([py_ocolor_eqb]).  A dict is
              the insertion-ordered list of its items with distinct keys: `d[k]` is [py_cd_get] (KeyError), `d[k] = v`
              [py_cd_set] (an existing key keeps its position, a new one is appended), `del d[k]` [py_cd_del] (KeyError),
              `d.items()` the list itself, `d.values()` [map snd].  collections.defaultdict(factory): `d[k]` for a missing
              key stores factory() under k first -- [py_dd_getitem dflt k d] returns the value AND the dict afterwards.
   set        `len(set(xs))` for a list of colours: the number of distinct items ([py_set_len]; no iteration order involved).
   either     `last_color` of matrix_to_lines_verbose holds the int -1 or a colour: a [sum]; `x != y` between an int and a
              colour is true.
   numbers    ordering comparisons of the int-or-float numbers of PySemVec.v by their exact value ([py_vnum_leb / ltb]).
   str        `s.replace(old, new)`: leftmost non-overlapping occurrences ([py_str_replace]; for the empty pattern `new` is
              put before every character and at the end, as CPython does).
   saxutils   xml.sax.saxutils.escape / quoteattr with the default `entities`: gen/translate_svg.py accepts calls of them
              only while `inspect.getsource` of escape, quoteattr and __dict_replace is literally the expected text
              (SAXUTILS_EXPECTED); [py_xml_escape] / [py_xml_quoteattr] follow that text line by line (three / six
              successive `replace` calls, the quote selection with `in`).
   stream     `with writable(out, 'wt', encoding=enc) as f:` -- the text stream of PySemIO.v; the translated function returns
              the pair (enc, what was written): the encoding the codec writer / the file was opened with is part of the
              result, the encoding step itself (codecs) is outside.
   C code     `re.sub(pattern, repl, s)` and repr(float) are parameters of the generated definitions (ext_re_sub,
              ext_q_repr, ext_float_repr). *)
From Coq Require Import ZArith QArith List Bool Lia.
From Segno Require Import Base.PyLite Base.PySem Base.PySemExt Base.PySemGen Base.PySemIO Base.PySemSeg Base.PySemColor
                          Base.PySemPng Base.PySemVec.
Import ListNotations.
Open Scope Z_scope.

(* ------------------------------------------------------------------ colours as dict keys *)
Definition py_color_eqb (a b : py_color) : bool :=
  match a, b with
  | PyCStr x, PyCStr y => py_list_eqb x y
  | PyCTuple x, PyCTuple y => py_list_eqb x y
  | _, _ => false
  end.
Definition py_ocolor_eqb (a b : option py_color) : bool :=
  match a, b with
  | None, None => true
  | Some x, Some y => py_color_eqb x y
  | _, _ => false
  end.

Fixpoint py_cd_find {V} (k : option py_color) (d : list (option py_color * V)) : option V :=
  match d with
  | [] => None
  | (k', v) :: r => if py_ocolor_eqb k k' then Some v else py_cd_find k r
  end.
(* d[k] *)
Definition py_cd_get {V} (k : option py_color) (d : list (option py_color * V)) : res V :=
  match py_cd_find k d with Some v => Ok v | None => Err KeyErr end.
(* d[k] = v *)
Fixpoint py_cd_set {V} (k : option py_color) (v : V) (d : list (option py_color * V)) : list (option py_color * V) :=
  match d with
  | [] => [(k, v)]
  | (k', v') :: r => if py_ocolor_eqb k k' then (k', v) :: r else (k', v') :: py_cd_set k v r
  end.
(* del d[k] *)
Fixpoint py_cd_del {V} (k : option py_color) (d : list (option py_color * V)) : res (list (option py_color * V)) :=
  match d with
  | [] => Err KeyErr
  | (k', v') :: r => if py_ocolor_eqb k k' then Ok r else do r' <- py_cd_del k r; Ok ((k', v') :: r')
  end.
(* d[k] on a defaultdict whose factory returns dflt: the value and the dict afterwards *)
Definition py_dd_getitem {V} (dflt : V) (k : option py_color) (d : list (option py_color * V))
  : V * list (option py_color * V) :=
  match py_cd_find k d with Some v => (v, d) | None => (dflt, d ++ [(k, dflt)]) end.
Definition py_cd_values {V} (d : list (option py_color * V)) : list V := map snd d.

(* len(set(xs)): the items that do not occur again later are the distinct ones *)
Fixpoint py_distinct {A} (eqb : A -> A -> bool) (l : list A) : list A :=
  match l with
  | [] => []
  | x :: r => if existsb (eqb x) r then py_distinct eqb r else x :: py_distinct eqb r
  end.
Definition py_set_len {A} (eqb : A -> A -> bool) (l : list A) : Z := lenZ (py_distinct eqb l).

(* ------------------------------------------------------------------ numbers *)
Definition py_vnum_leb (a b : py_vnum) : bool := py_q_le (py_vnum_q a) (py_vnum_q b).
Definition py_vnum_ltb (a b : py_vnum) : bool := py_q_lt (py_vnum_q a) (py_vnum_q b).
(* str(x) for an item of a colour tuple (PySemColor.v): repr of a binary64 value is a parameter *)
Definition py_cnum_str (ext : py_float -> list Z) (c : py_cnum) : list Z :=
  match c with PyNInt z => py_str_int z | PyNFlt x => ext x end.

(* ------------------------------------------------------------------ str.replace *)
Fixpoint py_replace_fuel (fuel : nat) (old new s : list Z) : list Z :=
  match fuel with
  | O => s
  | S f =>
      match s with
      | [] => []
      | c :: r => if py_starts_with old s then new ++ py_replace_fuel f old new (skipn (length old) s)
                  else c :: py_replace_fuel f old new r
      end
  end.
Definition py_str_replace (s old new : list Z) : list Z :=
  match old with
  | [] => new ++ flat_map (fun c => c :: new) s
  | _ => py_replace_fuel (length s) old new s
  end.

(* ------------------------------------------------------------------ xml.sax.saxutils (entities = {}) *)
Definition py_xml_escape (data : list Z) : list Z :=
  let data := py_str_replace data [38] [38; 97; 109; 112; 59] in          (* & -> &amp; *)
  let data := py_str_replace data [62] [38; 103; 116; 59] in              (* > -> &gt; *)
  py_str_replace data [60] [38; 108; 116; 59].                            (* < -> &lt; *)
Definition py_xml_quoteattr (data : list Z) : list Z :=
  (* entities = {'\n': '&#10;', '\r': '&#13;', '\t': '&#9;'}, replaced in this order after the three of escape *)
  let data := py_xml_escape data in
  let data := py_str_replace data [10] [38; 35; 49; 48; 59] in
  let data := py_str_replace data [13] [38; 35; 49; 51; 59] in
  let data := py_str_replace data [9] [38; 35; 57; 59] in
  if py_str_in [34] data then
    if py_str_in [39] data then [34] ++ py_str_replace data [34] [38; 113; 117; 111; 116; 59] ++ [34]
    else [39] ++ data ++ [39]
  else [34] ++ data ++ [34].

(* ------------------------------------------------------------------ checked against CPython 3.12 on examples *)
(* 'a&b<c>'.replace('&', '&amp;') ...; 'aaa'.replace('aa', 'b') == 'ba'; 'abc'.replace('', '-') == '-a-b-c-'; ''.replace('', 'x') == 'x';
   'stroke-stroke'.replace('stroke', 'fill') == 'fill-fill'; 'ab'.replace('abc', 'x') == 'ab' *)
Example ex_replace :
  (py_str_replace [97; 97; 97] [97; 97] [98], py_str_replace [97; 98; 99] [] [45], py_str_replace [] [] [120],
   py_str_replace [97; 98] [97; 98; 99] [120], py_str_replace [97; 98; 97; 98] [97; 98] [], py_str_replace [] [97] [98])
  = ([98; 97], [45; 97; 45; 98; 45; 99; 45], [120], [97; 98], [], []).
Proof. vm_compute. reflexivity. Qed.
(* escape('a&b<c>d') == 'a&amp;b&lt;c&gt;d'; quoteattr of  a DQ b  is  SQ a DQ b SQ;  of  a DQ b SQ c  is  DQ a &quot; b SQ c DQ
   (DQ / SQ: the double / single quote character); quoteattr('x\ny\tz\r') == DQ x&#10;y&#9;z&#13; DQ; quoteattr('') == DQ DQ;
   quoteattr of  it SQ s  is  DQ it SQ s DQ;  quoteattr('<&>') == DQ &lt;&amp;&gt; DQ *)
Example ex_saxutils :
  (py_xml_escape [97; 38; 98; 60; 99; 62; 100], py_xml_quoteattr [97; 34; 98], py_xml_quoteattr [97; 34; 98; 39; 99],
   py_xml_quoteattr [120; 10; 121; 9; 122; 13], py_xml_quoteattr [], py_xml_quoteattr [105; 116; 39; 115],
   py_xml_quoteattr [60; 38; 62])
  = ([97; 38; 97; 109; 112; 59; 98; 38; 108; 116; 59; 99; 38; 103; 116; 59; 100], [39; 97; 34; 98; 39],
     [34; 97; 38; 113; 117; 111; 116; 59; 98; 39; 99; 34],
     [34; 120; 38; 35; 49; 48; 59; 121; 38; 35; 57; 59; 122; 38; 35; 49; 51; 59; 34], [34; 34], [34; 105; 116; 39; 115; 34],
     [34; 38; 108; 116; 59; 38; 97; 109; 112; 59; 38; 103; 116; 59; 34]).
Proof. vm_compute. reflexivity. Qed.
(* d = {}; d['a'] = 1; d[None] = 2; d['a'] = 3 -> {'a': 3, None: 2}; del d[None]; del d[(1,)] -> KeyError;
   dd = defaultdict(list); dd['x'] -> [] and dd == {'x': []}; len(set(['a', None, 'a', (1, 2), 'b', None])) == 4; 'a' != ('a',) *)
Example ex_cdict :
  let a := Some (PyCStr [97]) in
  let d := py_cd_set a 3 (py_cd_set None 2 (py_cd_set a 1 [])) in
  (d, py_cd_del None d, py_cd_del (Some (PyCTuple [1])) d, py_cd_get None d, py_cd_get (Some (PyCStr [98])) d,
   py_dd_getitem 0 (Some (PyCStr [120])) d, py_dd_getitem 0 None d,
   py_set_len py_ocolor_eqb [a; None; a; Some (PyCTuple [1; 2]); Some (PyCStr [98]); None],
   py_ocolor_eqb (Some (PyCStr [97])) (Some (PyCTuple [97])))
  = ([(a, 3); (None, 2)], Ok [(a, 3)], Err KeyErr, Ok 2, Err KeyErr,
     (0, [(a, 3); (None, 2); (Some (PyCStr [120]), 0)]), (2, [(a, 3); (None, 2)]), 4, false).
Proof. vm_compute. reflexivity. Qed.
(* 1.5 >= 2.0 False, 2 >= 2.0 True, 1.1 < 2.0 True, 2.0 < 2.0 False *)
Example ex_vnum_order :
  (py_vnum_leb (PVFlt 2) (PVFlt (3 # 2)), py_vnum_leb (PVFlt 2) (PVInt 2), py_vnum_ltb (PVFlt (11 # 10)) (PVFlt 2),
   py_vnum_ltb (PVFlt 2) (PVFlt 2))
  = (false, true, true, false).
Proof. vm_compute. reflexivity. Qed.
