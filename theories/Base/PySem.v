(* PySem: the statement-level fragment of Python semantics used by the mechanically translated sources
   (build/gen/SrcVersion.v, SrcFormat.v, SrcPad.v, SrcFit.v, SrcBoost.v, SrcMaskArg.v, produced by gen/translate.py).  Everything here is a plain total function;
   exceptions live in [res] (Base/PyLite.v).

   for-loops:  `for x in xs: BODY` with the tuple [s] of the variables BODY rebinds is
               [py_for xs (fun x s => BODY) s]; BODY ends in [CNext s'] (fall through / continue),
               [CBrk s'] (break) or [CRet a] (return a).  The loop yields [inl a] for a return and [inr s] for
               normal termination.  The same [ctl] result is used for the body of try/except. *)
From Coq Require Import String.
From Coq Require Import ZArith List Bool Lia.
From Segno Require Import Base.PyLite.
Import ListNotations.
Open Scope Z_scope.

Inductive void : Type := .

Inductive ctl (A S : Type) : Type := CRet (a : A) | CNext (s : S) | CBrk (s : S).
Arguments CRet {A S} a.
Arguments CNext {A S} s.
Arguments CBrk {A S} s.

Fixpoint py_for {X A S : Type} (xs : list X) (body : X -> S -> res (ctl A S)) (s : S) : res (A + S) :=
  match xs with
  | [] => Ok (inr s)
  | x :: r =>
      match body x s with
      | Err e => Err e
      | Ok (CRet a) => Ok (inl a)
      | Ok (CBrk s') => Ok (inr s')
      | Ok (CNext s') => py_for r body s'
      end
  end.

(* seq * n  (empty for n <= 0) *)
Definition py_repeat {A} (l : list A) (n : Z) : list A := concat (repeat l (Z.to_nat n)).

(* Buffer.extend(iterable): the buffer wraps a bytearray, every item must be in range(256) *)
Definition is_byte (x : Z) : bool := (0 <=? x) && (x <? 256).
Definition py_buf_extend (buff xs : list Z) : res (list Z) :=
  if forallb is_byte xs then Ok (buff ++ xs) else Err ValueError.

(* seq[k:] *)
Definition py_slice_from {A} (l : list A) (k : Z) : list A :=
  skipn (Z.to_nat (if k <? 0 then Z.max 0 (k + lenZ l) else k)) l.

(* list.index(x) *)
Fixpoint py_index_of (x : Z) (l : list Z) : res Z :=
  match l with
  | [] => Err ValueError
  | y :: r => if x =? y then Ok 0 else do k <- py_index_of x r; Ok (k + 1)
  end.
Definition py_index_of_oz (x : option Z) (l : list Z) : res Z :=
  match x with Some v => py_index_of v l | None => Err ValueError end.

(* list.pop() as a statement: the list without its last item; IndexError on the empty list *)
Definition py_pop {A} (l : list A) : res (list A) :=
  match l with [] => Err IndexErr | _ => Ok (removelast l) end.

(* list.count(x) *)
Definition py_count (x : Z) (l : list Z) : Z := lenZ (filter (Z.eqb x) l).

(* sum(...) of ints; with items that may raise, the first exception (left to right) wins *)
Definition py_sum (l : list Z) : Z := fold_right Z.add 0 l.
Fixpoint py_sum_res (l : list (res Z)) : res Z :=
  match l with [] => Ok 0 | x :: r => do a <- x; do b <- py_sum_res r; Ok (a + b) end.
(* [e for ...] with items that may raise *)
Fixpoint py_seq_res {A} (l : list (res A)) : res (list A) :=
  match l with [] => Ok [] | x :: r => do a <- x; do b <- py_seq_res r; Ok (a :: b) end.

(* max(list): ValueError on the empty list *)
Fixpoint py_max_list (l : list Z) : res Z :=
  match l with
  | [] => Err ValueError
  | [x] => Ok x
  | x :: r => do m <- py_max_list r; Ok (Z.max x m)
  end.

(* objects of segno.encoder: _Segment (bits, char_count, mode, encoding) and Segments (__slots__) *)
Record py_seg := { seg_bits : list Z; seg_char_count : Z; seg_mode : Z; seg_encoding : option String.string }.
Record py_segs := { segs_segments : list py_seg; segs_bit_length : Z; segs_modes : list Z }.

(* ---- generic facts used by the bridge proofs ---- *)
Lemma py_for_nil {X A S} (body : X -> S -> res (ctl A S)) s : py_for [] body s = Ok (inr s).
Proof. reflexivity. Qed.

Lemma py_for_ext {X A S} (xs : list X) (f g : X -> S -> res (ctl A S)) :
  (forall x s, In x xs -> f x s = g x s) -> forall s, py_for xs f s = py_for xs g s.
Proof.
  induction xs as [|x r IH]; intros Hfg s; cbn [py_for]; [reflexivity|].
  rewrite (Hfg x s (or_introl eq_refl)).
  destruct (g x s) as [[a|s'|s']|e]; try reflexivity.
  apply IH. intros y t Hy. apply Hfg. now right.
Qed.

Lemma py_repeat_zeros (n : Z) : py_repeat [0] n = repeat 0 (Z.to_nat n).
Proof.
  unfold py_repeat. induction (Z.to_nat n) as [|k IH]; cbn; [reflexivity|]. now rewrite IH.
Qed.

Lemma forallb_is_byte_repeat0 k : forallb is_byte (repeat 0 k) = true.
Proof. induction k as [|k IH]; cbn; auto. Qed.

(* ------------------------------------------------------------------ items, slices, 2-D stores *)
(* The module matrix of segno is a tuple of bytearrays that is mutated in place (`matrix[i][j] = v`,
   `matrix[i][a:b] = seq`, `row = matrix[i]; row[j] = v`).  Functionally: a list of rows (list Z); every
   mutation yields the new matrix.  Negative indices wrap around as in Python, indices out of range raise
   IndexError, values outside range(256) raise ValueError (the value is checked before the index). *)
Definition py_norm_index (len i : Z) : res Z :=
  let k := if i <? 0 then i + len else i in
  if (0 <=? k) && (k <? len) then Ok k else Err IndexErr.

Fixpoint upd_nat {A} (l : list A) (k : nat) (x : A) : list A :=
  match l, k with
  | [], _ => []
  | _ :: r, O => x :: r
  | y :: r, S k' => y :: upd_nat r k' x
  end.

(* seq[i] = v for a bytearray *)
Definition py_set_item (l : list Z) (i v : Z) : res (list Z) :=
  if is_byte v then do k <- py_norm_index (lenZ l) i; Ok (upd_nat l (Z.to_nat k) v) else Err ValueError.

(* row = matrix[i]: the (normalised) index of the row the name refers to *)
Definition py_row_index {A} (m : list A) (i : Z) : res Z := py_norm_index (lenZ m) i.

Definition py_get2 (m : list (list Z)) (i j : Z) : res Z := do row <- py_index m i; py_index row j.

Definition py_set2 (m : list (list Z)) (i j v : Z) : res (list (list Z)) :=
  do k <- py_row_index m i;
  do row <- nthZ m k;
  do row' <- py_set_item row j v;
  Ok (upd_nat m (Z.to_nat k) row').

(* slice bounds are clipped, never an error *)
Definition py_clip (len k : Z) : Z := if k <? 0 then Z.max 0 (k + len) else Z.min k len.
Definition py_slice {A} (l : list A) (a b : Z) : list A :=
  let a' := py_clip (lenZ l) a in
  let b' := py_clip (lenZ l) b in
  firstn (Z.to_nat (b' - a')) (skipn (Z.to_nat a') l).
(* bytearray[a:b] = seq (may change the length) *)
Definition py_set_slice (l : list Z) (a b : Z) (vals : list Z) : res (list Z) :=
  if forallb is_byte vals then
    let a' := py_clip (lenZ l) a in
    let b' := py_clip (lenZ l) b in
    Ok (firstn (Z.to_nat a') l ++ vals ++ skipn (Z.to_nat (Z.max a' b')) l)
  else Err ValueError.
Definition py_set_slice2 (m : list (list Z)) (i a b : Z) (vals : list Z) : res (list (list Z)) :=
  do k <- py_row_index m i;
  do row <- nthZ m k;
  do row' <- py_set_slice row a b vals;
  Ok (upd_nat m (Z.to_nat k) row').

(* bytearray(iterable of ints) *)
Definition py_bytearray (l : list Z) : res (list Z) := if forallb is_byte l then Ok l else Err ValueError.

(* a, b = seq   /   a, b, c = seq *)
Definition py_unpack2 {A} (l : list A) : res (A * A) :=
  match l with [a; b] => Ok (a, b) | _ => Err ValueError end.
Definition py_unpack3 {A} (l : list A) : res (A * A * A) :=
  match l with [a; b; c] => Ok (a, b, c) | _ => Err ValueError end.

(* itertools.product(seq, repeat=2) *)
Definition py_product2 {A} (l : list A) : list (list A) := flat_map (fun x => map (fun y => [x; y]) l) l.

(* tuple of ints `in` tuple of tuples *)
Fixpoint py_list_eqb (a b : list Z) : bool :=
  match a, b with
  | [], [] => true
  | x :: a', y :: b' => (x =? y) && py_list_eqb a' b'
  | _, _ => false
  end.
Definition py_mem_list (x : list Z) (l : list (list Z)) : bool := existsb (py_list_eqb x) l.

(* x >> n, x << n: a negative shift count raises ValueError *)
Definition py_shiftr (x n : Z) : res Z := if n <? 0 then Err ValueError else Ok (Z.shiftr x n).
Definition py_shiftl (x n : Z) : res Z := if n <? 0 then Err ValueError else Ok (Z.shiftl x n).

(* range(a, b, step) for step <> 0 *)
Fixpoint py_range_aux (n : nat) (a step : Z) : list Z :=
  match n with O => [] | S k => a :: py_range_aux k (a + step) step end.
Definition py_range3 (a b step : Z) : res (list Z) :=
  if step =? 0 then Err ValueError
  else if 0 <? step then Ok (py_range_aux (Z.to_nat ((b - a + step - 1) / step)) a step)
  else Ok (py_range_aux (Z.to_nat ((a - b - step - 1) / (- step))) a step).

(* ------------------------------------------------------------------ iterators, Buffer.toints, namedtuple EC *)
(* itertools.islice(it, n) on an iterator: the items taken and the iterator that remains *)
Definition py_islice {A} (it : list A) (n : Z) : res (list A * list A) :=
  if n <? 0 then Err ValueError else Ok (firstn (Z.to_nat n) it, skipn (Z.to_nat n) it).

(* Buffer.toints(): the buffer read in groups of 8 items (the last group filled with 0), every group taken as
   the binary digits of an int.  Exact for buffers whose items are the bits 0/1 (all that Buffer.append_bits and
   the writers of encoder.py store); for other items Python would read the decimal digits of each item as binary
   digits -- such buffers are rejected here.  gen/translate.py accepts Buffer.toints only while its source is
   literally the expected one-liner (zip_longest over 8 copies of one iterator, int(.., 2) of the joined strs). *)
Definition is_bit (x : Z) : bool := (x =? 0) || (x =? 1).
Fixpoint py_take_fill (n : nat) (l : list Z) : list Z :=
  match n with O => [] | S k => match l with [] => 0 :: py_take_fill k [] | x :: r => x :: py_take_fill k r end end.
Fixpoint py_toints_fuel (fuel : nat) (l : list Z) : list Z :=
  match fuel with O => [] | S f =>
    match l with
    | [] => []
    | _ => fold_left (fun acc b => 2 * acc + b) (py_take_fill 8 l) 0 :: py_toints_fuel f (skipn 8 l)
    end end.
Definition py_buffer_toints (data : list Z) : res (list Z) :=
  if forallb is_bit data then Ok (py_toints_fuel (S (length data)) data) else Err TypeErr.

(* consts.EC = namedtuple('EC', 'num_blocks num_total num_data'), dumped as triples *)
Definition ec_num_blocks (e : Z * Z * Z) : Z := fst (fst e).
Definition ec_num_total (e : Z * Z * Z) : Z := snd (fst e).
Definition ec_num_data (e : Z * Z * Z) : Z := snd e.

(* list item assignment (no byte range) *)
Definition py_list_set_item {A} (l : list A) (i : Z) (v : A) : res (list A) :=
  do k <- py_norm_index (lenZ l) i; Ok (upd_nat l (Z.to_nat k) v).

(* ------------------------------------------------------------------ more sequence helpers *)
(* seq.pop() / seq.pop(-1) as an expression: the last item and the sequence without it *)
Definition py_pop_last {A} (l : list A) : res (A * list A) :=
  match rev l with [] => Err IndexErr | x :: _ => Ok (x, removelast l) end.

(* [x for x in seq if x is not None] *)
Fixpoint py_somes {A} (l : list (option A)) : list A :=
  match l with [] => [] | Some x :: r => x :: py_somes r | None :: r => py_somes r end.

(* itertools.zip_longest of the unpacked sequences: the columns, None where a sequence is exhausted *)
Definition py_all_nil {A} (ls : list (list A)) : bool := forallb (fun l => match l with [] => true | _ => false end) ls.
Fixpoint py_zip_longest_fuel {A} (fuel : nat) (ls : list (list A)) : list (list (option A)) :=
  match fuel with O => [] | S f =>
    if py_all_nil ls then []
    else map (fun l => match l with [] => None | x :: _ => Some x end) ls
         :: py_zip_longest_fuel f (map (fun l => match l with [] => [] | _ :: r => r end) ls)
  end.
Definition py_zip_longest {A} (ls : list (list A)) : list (list (option A)) :=
  py_zip_longest_fuel (S (fold_left (fun a b => Nat.max a (length b)) ls O)) ls.

(* Buffer.append_bits(val, length): ((val >> i) & 1 for i in reversed(range(length))) *)
Definition py_bits_of (val len : Z) : list Z := map (fun i => Z.land (Z.shiftr val i) 1) (rev (zrange 0 len)).

(* any(seq) for a sequence of ints *)
Definition py_any (l : list Z) : bool := existsb (fun x => negb (x =? 0)) l.

(* enumerate(seq) *)
Definition py_enumerate {A} (l : list A) : list (Z * A) := combine (zrange 0 (lenZ l)) l.

(* bytearray.find(sub, start): lowest index >= start where sub occurs, else -1 (0 <= start) *)
Fixpoint py_starts_with (p l : list Z) : bool :=
  match p, l with
  | [], _ => true
  | a :: p', b :: l' => (a =? b) && py_starts_with p' l'
  | _ :: _, [] => false
  end.
Fixpoint py_find_suffix (p suffix : list Z) (pos : Z) : Z :=
  match suffix with
  | [] => if py_starts_with p [] then pos else -1
  | _ :: r => if py_starts_with p suffix then pos else py_find_suffix p r (pos + 1)
  end.
Definition py_find (l p : list Z) (start : Z) : Z :=
  let s := py_clip (lenZ l) start in
  if lenZ l <? s + lenZ p then (if (lenZ p =? 0) && (s <=? lenZ l) then s else -1)
  else py_find_suffix p (skipn (Z.to_nat s) l) s.

(* abs *)
Definition py_abs (x : Z) : Z := Z.abs x.
