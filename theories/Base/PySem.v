(* PySem: the statement-level fragment of Python semantics used by the mechanically translated sources
   (build/gen/SrcVersion.v, SrcFormat.v, SrcPad.v, SrcFit.v, SrcBoost.v, SrcMaskArg.v, produced by gen/translate.py).  Everything here is a plain total function;
   exceptions live in [res] (Base/PyLite.v).

   for-loops:  `for x in xs: BODY` with the tuple [s] of the variables BODY rebinds is
               [py_for xs (fun x s => BODY) s]; BODY ends in [CNext s'] (fall through / continue),
               [CBrk s'] (break) or [CRet a] (return a).  The loop yields [inl a] for a return and [inr s] for
               normal termination.  The same [ctl] result is used for the body of try/except. *)
From Coq Require Import String.
From Coq Require Import ZArith List Bool Lia.
From Segno Require Import Base.PyLite.
Import ListNotations.
Open Scope Z_scope.

Inductive void : Type := .

Inductive ctl (A S : Type) : Type := CRet (a : A) | CNext (s : S) | CBrk (s : S).
Arguments CRet {A S} a.
Arguments CNext {A S} s.
Arguments CBrk {A S} s.

Fixpoint py_for {X A S : Type} (xs : list X) (body : X -> S -> res (ctl A S)) (s : S) : res (A + S) :=
  match xs with
  | [] => Ok (inr s)
  | x :: r =>
      match body x s with
      | Err e => Err e
      | Ok (CRet a) => Ok (inl a)
      | Ok (CBrk s') => Ok (inr s')
      | Ok (CNext s') => py_for r body s'
      end
  end.

(* seq * n  (empty for n <= 0) *)
Definition py_repeat {A} (l : list A) (n : Z) : list A := concat (repeat l (Z.to_nat n)).

(* Buffer.extend(iterable): the buffer wraps a bytearray, every item must be in range(256) *)
Definition is_byte (x : Z) : bool := (0 <=? x) && (x <? 256).
Definition py_buf_extend (buff xs : list Z) : res (list Z) :=
  if forallb is_byte xs then Ok (buff ++ xs) else Err ValueError.

(* seq[k:] *)
Definition py_slice_from {A} (l : list A) (k : Z) : list A :=
  skipn (Z.to_nat (if k <? 0 then Z.max 0 (k + lenZ l) else k)) l.

(* list.index(x) *)
Fixpoint py_index_of (x : Z) (l : list Z) : res Z :=
  match l with
  | [] => Err ValueError
  | y :: r => if x =? y then Ok 0 else do k <- py_index_of x r; Ok (k + 1)
  end.
Definition py_index_of_oz (x : option Z) (l : list Z) : res Z :=
  match x with Some v => py_index_of v l | None => Err ValueError end.

(* list.pop() as a statement: the list without its last item; IndexError on the empty list *)
Definition py_pop {A} (l : list A) : res (list A) :=
  match l with [] => Err IndexErr | _ => Ok (removelast l) end.

(* list.count(x) *)
Definition py_count (x : Z) (l : list Z) : Z := lenZ (filter (Z.eqb x) l).

(* sum(...) of ints; with items that may raise, the first exception (left to right) wins *)
Definition py_sum (l : list Z) : Z := fold_right Z.add 0 l.
Fixpoint py_sum_res (l : list (res Z)) : res Z :=
  match l with [] => Ok 0 | x :: r => do a <- x; do b <- py_sum_res r; Ok (a + b) end.
(* [e for ...] with items that may raise *)
Fixpoint py_seq_res {A} (l : list (res A)) : res (list A) :=
  match l with [] => Ok [] | x :: r => do a <- x; do b <- py_seq_res r; Ok (a :: b) end.

(* max(list): ValueError on the empty list *)
Fixpoint py_max_list (l : list Z) : res Z :=
  match l with
  | [] => Err ValueError
  | [x] => Ok x
  | x :: r => do m <- py_max_list r; Ok (Z.max x m)
  end.

(* objects of segno.encoder: _Segment (bits, char_count, mode, encoding) and Segments (__slots__) *)
Record py_seg := { seg_bits : list Z; seg_char_count : Z; seg_mode : Z; seg_encoding : option String.string }.
Record py_segs := { segs_segments : list py_seg; segs_bit_length : Z; segs_modes : list Z }.

(* ---- generic facts used by the bridge proofs ---- *)
Lemma py_for_nil {X A S} (body : X -> S -> res (ctl A S)) s : py_for [] body s = Ok (inr s).
Proof. reflexivity. Qed.

Lemma py_for_ext {X A S} (xs : list X) (f g : X -> S -> res (ctl A S)) :
  (forall x s, In x xs -> f x s = g x s) -> forall s, py_for xs f s = py_for xs g s.
Proof.
  induction xs as [|x r IH]; intros Hfg s; cbn [py_for]; [reflexivity|].
  rewrite (Hfg x s (or_introl eq_refl)).
  destruct (g x s) as [[a|s'|s']|e]; try reflexivity.
  apply IH. intros y t Hy. apply Hfg. now right.
Qed.

Lemma py_repeat_zeros (n : Z) : py_repeat [0] n = repeat 0 (Z.to_nat n).
Proof.
  unfold py_repeat. induction (Z.to_nat n) as [|k IH]; cbn; [reflexivity|]. now rewrite IH.
Qed.

Lemma forallb_is_byte_repeat0 k : forallb is_byte (repeat 0 k) = true.
Proof. induction k as [|k IH]; cbn; auto. Qed.
