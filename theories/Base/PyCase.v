(* PyCase: str.lower() / str.upper() of CPython 3.12 on a str given as the list of its code points, EXACT AS FAR AS ASCII
   CHARACTERS ARE CONCERNED.  (DESIGN.md 11.14.1.)

   What CPython does (Objects/unicodeobject.c do_lower / do_upper): the result is the concatenation, code point by code
   point, of the full case mapping of the Unicode database (_PyUnicode_ToLowerFull / _PyUnicode_ToUpperFull; one to three
   code points, never empty).  The only context dependence is U+03A3 GREEK CAPITAL LETTER SIGMA in lower(), which becomes
   U+03C3 or U+03C2 (final sigma) -- non-ASCII either way.  upper() has no context dependence.

   Sweep (CPython 3.12.1, unicodedata.unidata_version = 15.0.0; harness/props/c14.py case_tables_of_cpython() repeats it
   with the running interpreter on every run and compares it with the two tables below, oracle command `case_tables`):

       [(c, [ord(x) for x in chr(c).lower()]) for c in range(128, 0x110000) if any(ord(x) < 128 for x in chr(c).lower())]
         = [(0x130, [105, 775]), (0x212a, [107])]
             U+0130 LATIN CAPITAL LETTER I WITH DOT ABOVE -> 'i' + U+0307;   U+212A KELVIN SIGN -> 'k'
       the same with .upper():
         = [(0xdf, 'SS'), (0x131, 'I'), (0x149, U+02BC 'N'), (0x17f, 'S'), (0x1f0, 'J' U+030C), (0x1e96, 'H' U+0331),
            (0x1e97, 'T' U+0308), (0x1e98, 'W' U+030A), (0x1e99, 'Y' U+030A), (0x1e9a, 'A' U+02BE), (0xfb00, 'FF'),
            (0xfb01, 'FI'), (0xfb02, 'FL'), (0xfb03, 'FFI'), (0xfb04, 'FFL'), (0xfb05, 'ST'), (0xfb06, 'ST')]
       and for c < 128: chr(c).lower() == chr(c + 32) if 65 <= c <= 90 else chr(c);  .upper(): c - 32 for 97 <= c <= 122.

   The model.  [py_lower_cp] / [py_upper_cp] are CPython's mapping on every c < 128 and on exactly the listed code points
   (all the non-ASCII code points whose image contains an ASCII character); EVERY OTHER non-ASCII code point is mapped
   to itself.  CPython maps such a code point to a non-empty string WITHOUT ASCII characters (that is what the sweep
   says), so [py_lower s] and s.lower() can differ only inside maximal runs of non-ASCII code points, and a non-empty
   run stays a non-empty run.  Consequently, for every str s:
     * s.lower() == n  <->  py_lower s = n   for every ASCII-only n -- dict lookups with ASCII keys (MODE_MAPPING,
       ERROR_MAPPING, MICRO_VERSION_MAPPING, _NAME2RGB), `in` / `==` against ASCII literals ('#000', 'black', ...);
     * s.lower() is ASCII-only iff py_lower s is, and then they are equal;
     * the ASCII characters of both strings are the same, in the same order, separated at the same places.
   The same for upper().  [case_compare_faithful] below is this argument as a theorem about ANY per-position images that
   satisfy what the sweep established.  segno uses the lowered / uppered string for such comparisons only: the
   hexadecimal-digit check and int(.., 16) of _hex_to_rgb_or_rgba run on the ORIGINAL colour string, not on the lowered one.
   (What is NOT claimed: py_lower s = s.lower() for strings with other cased non-ASCII letters -- 'É'.lower() is 'é'.)

   [ascii_lower] / [ascii_upper] (ASCII letters only, everything else kept) remain for the places where a string is
   compared with ASCII names that contain no 'k' (the only ASCII letter that a non-ASCII code point lowers to on its
   own): [py_lower_is_ascii_lower] shows the two lowerings are then interchangeable (file extensions / `kind` of
   Model/Route.v, EPC encodings of Model/Helpers.v). *)
From Coq Require Import ZArith List Bool Lia.
From Segno Require Import Base.PyLite.
Import ListNotations.
Open Scope Z_scope.

Definition ascii_lower_cp (c : Z) : Z := if (65 <=? c) && (c <=? 90) then c + 32 else c.
Definition ascii_upper_cp (c : Z) : Z := if (97 <=? c) && (c <=? 122) then c - 32 else c.
Definition ascii_lower (s : list Z) : list Z := map ascii_lower_cp s.
Definition ascii_upper (s : list Z) : list Z := map ascii_upper_cp s.

(* the non-ASCII code points whose lower() / upper() contains an ASCII character, with their images (Unicode 15.0.0) *)
Definition LOWER_SPECIAL : list (Z * list Z) := [(304, [105; 775]); (8490, [107])].
Definition UPPER_SPECIAL : list (Z * list Z) :=
  [(223, [83; 83]); (305, [73]); (329, [700; 78]); (383, [83]); (496, [74; 780]); (7830, [72; 817]); (7831, [84; 776]);
   (7832, [87; 778]); (7833, [89; 778]); (7834, [65; 702]); (64256, [70; 70]); (64257, [70; 73]); (64258, [70; 76]);
   (64259, [70; 70; 73]); (64260, [70; 70; 76]); (64261, [83; 84]); (64262, [83; 84])].

Definition py_lower_cp (c : Z) : list Z :=
  match assocZ c LOWER_SPECIAL with Some l => l | None => [ascii_lower_cp c] end.
Definition py_upper_cp (c : Z) : list Z :=
  match assocZ c UPPER_SPECIAL with Some l => l | None => [ascii_upper_cp c] end.
Definition py_lower (s : list Z) : list Z := flat_map py_lower_cp s.     (* s.lower() *)
Definition py_upper (s : list Z) : list Z := flat_map py_upper_cp s.     (* s.upper() *)

(* 'blacK'.lower() == 'black' (U+212A); 'İ'.lower() == 'i̇'; 'ıſßﬂ'.upper() == 'ISSSFL'; 'aé1Z'.upper() == 'AÉ1Z' is NOT
   modelled beyond the ASCII characters: é is kept *)
Example case_examples :
  (py_lower [98; 108; 97; 99; 8490], py_lower [304], py_lower [75; 65; 78; 74; 73; 91; 64],
   py_upper [305; 383; 223; 64258], py_upper [97; 233; 49; 90; 123; 96])
  = ([98; 108; 97; 99; 107], [105; 775], [107; 97; 110; 106; 105; 91; 64],
     [73; 83; 83; 83; 70; 76], [65; 233; 49; 90; 123; 96]).
Proof. reflexivity. Qed.

(* ------------------------------------------------------------------ basic facts *)
Lemma py_lower_app a b : py_lower (a ++ b) = py_lower a ++ py_lower b.
Proof. apply flat_map_app. Qed.
Lemma py_upper_app a b : py_upper (a ++ b) = py_upper a ++ py_upper b.
Proof. apply flat_map_app. Qed.
Lemma py_lower_cons c s : py_lower (c :: s) = py_lower_cp c ++ py_lower s.
Proof. reflexivity. Qed.
Lemma py_upper_cons c s : py_upper (c :: s) = py_upper_cp c ++ py_upper s.
Proof. reflexivity. Qed.

Lemma pc_assocZ_In {A} k (l : list (Z * A)) v : assocZ k l = Some v -> In (k, v) l.
Proof.
  induction l as [|[k' v'] r IH]; cbn [assocZ]; [discriminate|].
  destruct (k =? k') eqn:E; [intros [= ->]; apply Z.eqb_eq in E; subst; left; reflexivity|intros H; right; exact (IH H)].
Qed.
Lemma pc_assocZ_None_notin {A} k (l : list (Z * A)) : assocZ k l = None -> memZ k (map fst l) = false.
Proof.
  induction l as [|[k' v'] r IH]; cbn [assocZ map fst memZ existsb]; [reflexivity|].
  destruct (k =? k'); [discriminate|]. exact IH.
Qed.
Lemma pc_assocZ_notin_None {A} k (l : list (Z * A)) : memZ k (map fst l) = false -> assocZ k l = None.
Proof.
  induction l as [|[k' v'] r IH]; cbn [assocZ map fst memZ existsb]; [reflexivity|].
  destruct (k =? k'); [discriminate|]. exact IH.
Qed.

(* a code point is either plain (ASCII mapping, identity beyond ASCII) or one of the listed ones *)
Lemma py_lower_cp_cases c :
  (memZ c (map fst LOWER_SPECIAL) = false /\ py_lower_cp c = [ascii_lower_cp c]) \/ In (c, py_lower_cp c) LOWER_SPECIAL.
Proof.
  unfold py_lower_cp. destruct (assocZ c LOWER_SPECIAL) as [l|] eqn:E.
  - right. apply pc_assocZ_In. exact E.
  - left. split; [apply pc_assocZ_None_notin; exact E|reflexivity].
Qed.
Lemma py_upper_cp_cases c :
  (memZ c (map fst UPPER_SPECIAL) = false /\ py_upper_cp c = [ascii_upper_cp c]) \/ In (c, py_upper_cp c) UPPER_SPECIAL.
Proof.
  unfold py_upper_cp. destruct (assocZ c UPPER_SPECIAL) as [l|] eqn:E.
  - right. apply pc_assocZ_In. exact E.
  - left. split; [apply pc_assocZ_None_notin; exact E|reflexivity].
Qed.

(* the listed code points are non-ASCII, their images non-empty *)
Lemma lower_special_facts : forallb (fun p => (128 <=? fst p) && negb (lenZ (snd p) =? 0)) LOWER_SPECIAL = true.
Proof. vm_compute. reflexivity. Qed.
Lemma upper_special_facts : forallb (fun p => (128 <=? fst p) && negb (lenZ (snd p) =? 0)) UPPER_SPECIAL = true.
Proof. vm_compute. reflexivity. Qed.
Lemma lower_special_nonascii c l : In (c, l) LOWER_SPECIAL -> 128 <= c.
Proof.
  intros H. pose proof (proj1 (forallb_forall _ _) lower_special_facts _ H) as F. cbn [fst snd] in F.
  apply andb_prop in F. destruct F as [F _]. lia.
Qed.
Lemma upper_special_nonascii c l : In (c, l) UPPER_SPECIAL -> 128 <= c.
Proof.
  intros H. pose proof (proj1 (forallb_forall _ _) upper_special_facts _ H) as F. cbn [fst snd] in F.
  apply andb_prop in F. destruct F as [F _]. lia.
Qed.
Lemma py_lower_cp_nonempty c : py_lower_cp c <> [].
Proof.
  destruct (py_lower_cp_cases c) as [[_ ->]|H]; [discriminate|].
  pose proof (proj1 (forallb_forall _ _) lower_special_facts _ H) as F. cbn [fst snd] in F.
  apply andb_prop in F. destruct F as [_ F]. intros E. rewrite E in F. discriminate F.
Qed.
Lemma py_upper_cp_nonempty c : py_upper_cp c <> [].
Proof.
  destruct (py_upper_cp_cases c) as [[_ ->]|H]; [discriminate|].
  pose proof (proj1 (forallb_forall _ _) upper_special_facts _ H) as F. cbn [fst snd] in F.
  apply andb_prop in F. destruct F as [_ F]. intros E. rewrite E in F. discriminate F.
Qed.

(* ASCII strings: the ASCII mappings *)
Definition all_ascii (s : list Z) : bool := forallb (fun c => c <? 128) s.
Lemma py_lower_cp_ascii c : c < 128 -> py_lower_cp c = [ascii_lower_cp c].
Proof. intros Hc. destruct (py_lower_cp_cases c) as [[_ H]|H]; [exact H|]. apply lower_special_nonascii in H. lia. Qed.
Lemma py_upper_cp_ascii c : c < 128 -> py_upper_cp c = [ascii_upper_cp c].
Proof. intros Hc. destruct (py_upper_cp_cases c) as [[_ H]|H]; [exact H|]. apply upper_special_nonascii in H. lia. Qed.
Lemma py_lower_ascii s : all_ascii s = true -> py_lower s = ascii_lower s.
Proof.
  induction s as [|c r IH]; [reflexivity|]. cbn [all_ascii forallb]. intros H. apply andb_prop in H. destruct H as [Hc Hr].
  rewrite py_lower_cons, py_lower_cp_ascii by lia. cbn [app ascii_lower map]. f_equal. exact (IH Hr).
Qed.
Lemma py_upper_ascii s : all_ascii s = true -> py_upper s = ascii_upper s.
Proof.
  induction s as [|c r IH]; [reflexivity|]. cbn [all_ascii forallb]. intros H. apply andb_prop in H. destruct H as [Hc Hr].
  rewrite py_upper_cons, py_upper_cp_ascii by lia. cbn [app ascii_upper map]. f_equal. exact (IH Hr).
Qed.
(* strings without a listed code point: the ASCII mappings as well (other non-ASCII code points are kept) *)
Definition no_lower_special (s : list Z) : bool := forallb (fun c => negb (memZ c (map fst LOWER_SPECIAL))) s.
Definition no_upper_special (s : list Z) : bool := forallb (fun c => negb (memZ c (map fst UPPER_SPECIAL))) s.
Lemma py_lower_plain s : no_lower_special s = true -> py_lower s = ascii_lower s.
Proof.
  induction s as [|c r IH]; [reflexivity|]. cbn [no_lower_special forallb]. intros H. apply andb_prop in H. destruct H as [Hc Hr].
  rewrite py_lower_cons. unfold py_lower_cp. rewrite pc_assocZ_notin_None by (destruct (memZ c _); [discriminate Hc|reflexivity]).
  cbn [app ascii_lower map]. f_equal. exact (IH Hr).
Qed.
Lemma py_upper_plain s : no_upper_special s = true -> py_upper s = ascii_upper s.
Proof.
  induction s as [|c r IH]; [reflexivity|]. cbn [no_upper_special forallb]. intros H. apply andb_prop in H. destruct H as [Hc Hr].
  rewrite py_upper_cons. unfold py_upper_cp. rewrite pc_assocZ_notin_None by (destruct (memZ c _); [discriminate Hc|reflexivity]).
  cbn [app ascii_upper map]. f_equal. exact (IH Hr).
Qed.
(* a string WITH a listed code point x contains the image of x *)
Lemma py_upper_has_special s :
  no_upper_special s = false -> exists x l, In x s /\ In (x, l) UPPER_SPECIAL /\ forall y, In y l -> In y (py_upper s).
Proof.
  induction s as [|c r IH]; [discriminate|]. cbn [no_upper_special forallb]. intros H.
  destruct (memZ c (map fst UPPER_SPECIAL)) eqn:Ec.
  - destruct (py_upper_cp_cases c) as [[Hn _]|Hs]; [rewrite Hn in Ec; discriminate Ec|].
    exists c, (py_upper_cp c). split; [left; reflexivity|]. split; [exact Hs|].
    intros y Hy. rewrite py_upper_cons. apply in_or_app. left. exact Hy.
  - cbn [negb andb] in H. destruct (IH H) as (x & l & Hx & Hl & Hy). exists x, l. split; [right; exact Hx|]. split; [exact Hl|].
    intros y Iy. rewrite py_upper_cons. apply in_or_app. right. exact (Hy y Iy).
Qed.
Lemma py_lower_has_special s :
  no_lower_special s = false -> exists x l, In x s /\ In (x, l) LOWER_SPECIAL /\ forall y, In y l -> In y (py_lower s).
Proof.
  induction s as [|c r IH]; [discriminate|]. cbn [no_lower_special forallb]. intros H.
  destruct (memZ c (map fst LOWER_SPECIAL)) eqn:Ec.
  - destruct (py_lower_cp_cases c) as [[Hn _]|Hs]; [rewrite Hn in Ec; discriminate Ec|].
    exists c, (py_lower_cp c). split; [left; reflexivity|]. split; [exact Hs|].
    intros y Hy. rewrite py_lower_cons. apply in_or_app. left. exact Hy.
  - cbn [negb andb] in H. destruct (IH H) as (x & l & Hx & Hl & Hy). exists x, l. split; [right; exact Hx|]. split; [exact Hl|].
    intros y Iy. rewrite py_lower_cons. apply in_or_app. right. exact (Hy y Iy).
Qed.

(* ------------------------------------------------------------------ idempotence: s.lower().lower() == s.lower() *)
Lemma ascii_lower_cp_idem c : ascii_lower_cp (ascii_lower_cp c) = ascii_lower_cp c.
Proof. unfold ascii_lower_cp. destruct ((65 <=? c) && (c <=? 90)) eqn:E; [|rewrite E; reflexivity].
       destruct ((65 <=? c + 32) && (c + 32 <=? 90)) eqn:E2; [lia|reflexivity]. Qed.
Lemma ascii_upper_cp_idem c : ascii_upper_cp (ascii_upper_cp c) = ascii_upper_cp c.
Proof. unfold ascii_upper_cp. destruct ((97 <=? c) && (c <=? 122)) eqn:E; [|rewrite E; reflexivity].
       destruct ((97 <=? c - 32) && (c - 32 <=? 122)) eqn:E2; [lia|reflexivity]. Qed.
(* the images are fixed points: finite check *)
Lemma lower_images_fixed : forallb (fun p => if list_eq_dec Z.eq_dec (py_lower (snd p)) (snd p) then true else false) LOWER_SPECIAL = true.
Proof. vm_compute. reflexivity. Qed.
Lemma upper_images_fixed : forallb (fun p => if list_eq_dec Z.eq_dec (py_upper (snd p)) (snd p) then true else false) UPPER_SPECIAL = true.
Proof. vm_compute. reflexivity. Qed.
Lemma pc_memZ_false_not_In x l : memZ x l = false -> ~ In x l.
Proof.
  unfold memZ. intros H I. assert (E : existsb (Z.eqb x) l = true) by (apply existsb_exists; exists x; split; [exact I|apply Z.eqb_refl]).
  rewrite E in H. discriminate H.
Qed.
Lemma pc_memZ_true_In x l : memZ x l = true -> In x l.
Proof. unfold memZ. intros H. apply existsb_exists in H. destruct H as (y & Hy & E). apply Z.eqb_eq in E. subst. exact Hy. Qed.
Lemma py_lower_cp_idem c : py_lower (py_lower_cp c) = py_lower_cp c.
Proof.
  destruct (py_lower_cp_cases c) as [[Hn ->]|H].
  - cbn [py_lower flat_map]. rewrite app_nil_r.
    destruct (py_lower_cp_cases (ascii_lower_cp c)) as [[_ ->]|H2]; [rewrite ascii_lower_cp_idem; reflexivity|].
    exfalso. pose proof (lower_special_nonascii _ _ H2) as Hge.
    assert (Ec : ascii_lower_cp c = c) by (unfold ascii_lower_cp in *; destruct ((65 <=? c) && (c <=? 90)) eqn:E; [lia|reflexivity]).
    rewrite Ec in H2. apply (pc_memZ_false_not_In _ _ Hn). apply (in_map fst) in H2. exact H2.
  - pose proof (proj1 (forallb_forall _ _) lower_images_fixed _ H) as F. cbn [snd] in F.
    destruct (list_eq_dec Z.eq_dec (py_lower (py_lower_cp c)) (py_lower_cp c)) as [E|]; [exact E|discriminate F].
Qed.
Lemma py_upper_cp_idem c : py_upper (py_upper_cp c) = py_upper_cp c.
Proof.
  destruct (py_upper_cp_cases c) as [[Hn ->]|H].
  - cbn [py_upper flat_map]. rewrite app_nil_r.
    destruct (py_upper_cp_cases (ascii_upper_cp c)) as [[_ ->]|H2]; [rewrite ascii_upper_cp_idem; reflexivity|].
    exfalso. pose proof (upper_special_nonascii _ _ H2) as Hge.
    assert (Ec : ascii_upper_cp c = c) by (unfold ascii_upper_cp in *; destruct ((97 <=? c) && (c <=? 122)) eqn:E; [lia|reflexivity]).
    rewrite Ec in H2. apply (pc_memZ_false_not_In _ _ Hn). apply (in_map fst) in H2. exact H2.
  - pose proof (proj1 (forallb_forall _ _) upper_images_fixed _ H) as F. cbn [snd] in F.
    destruct (list_eq_dec Z.eq_dec (py_upper (py_upper_cp c)) (py_upper_cp c)) as [E|]; [exact E|discriminate F].
Qed.
Theorem py_lower_idem s : py_lower (py_lower s) = py_lower s.
Proof. induction s as [|c r IH]; [reflexivity|]. rewrite py_lower_cons, py_lower_app, py_lower_cp_idem, IH. reflexivity. Qed.
Theorem py_upper_idem s : py_upper (py_upper s) = py_upper s.
Proof. induction s as [|c r IH]; [reflexivity|]. rewrite py_upper_cons, py_upper_app, py_upper_cp_idem, IH. reflexivity. Qed.

(* ------------------------------------------------------------------ every listed image of upper() contains an ASCII
   capital letter, every listed image of lower() an ASCII small letter (this is why they are listed) *)
Lemma upper_images_have_letter : forallb (fun p => existsb (fun y => (65 <=? y) && (y <=? 90)) (snd p)) UPPER_SPECIAL = true.
Proof. vm_compute. reflexivity. Qed.
Lemma lower_images_have_letter : forallb (fun p => existsb (fun y => (97 <=? y) && (y <=? 122)) (snd p)) LOWER_SPECIAL = true.
Proof. vm_compute. reflexivity. Qed.
Lemma upper_special_letter c l : In (c, l) UPPER_SPECIAL -> exists y, In y l /\ 65 <= y <= 90.
Proof.
  intros H. pose proof (proj1 (forallb_forall _ _) upper_images_have_letter _ H) as F. cbn [snd] in F.
  apply existsb_exists in F. destruct F as (y & Hy & F). exists y. split; [exact Hy|lia].
Qed.
Lemma lower_special_letter c l : In (c, l) LOWER_SPECIAL -> exists y, In y l /\ 97 <= y <= 122.
Proof.
  intros H. pose proof (proj1 (forallb_forall _ _) lower_images_have_letter _ H) as F. cbn [snd] in F.
  apply existsb_exists in F. destruct F as (y & Hy & F). exists y. split; [exact Hy|lia].
Qed.

(* ------------------------------------------------------------------ ASCII-only results *)
Lemma all_ascii_app a b : all_ascii (a ++ b) = all_ascii a && all_ascii b.
Proof. apply forallb_app. Qed.
Lemma ascii_lower_cp_ascii c : (ascii_lower_cp c <? 128) = (c <? 128).
Proof. unfold ascii_lower_cp. destruct ((65 <=? c) && (c <=? 90)) eqn:E; lia. Qed.
Lemma ascii_upper_cp_ascii c : (ascii_upper_cp c <? 128) = (c <? 128).
Proof. unfold ascii_upper_cp. destruct ((97 <=? c) && (c <=? 122)) eqn:E; lia. Qed.
Lemma all_ascii_ascii_lower s : all_ascii (ascii_lower s) = all_ascii s.
Proof. induction s as [|c r IH]; [reflexivity|]. cbn [ascii_lower map all_ascii forallb]. rewrite ascii_lower_cp_ascii. f_equal. exact IH. Qed.
Lemma all_ascii_ascii_upper s : all_ascii (ascii_upper s) = all_ascii s.
Proof. induction s as [|c r IH]; [reflexivity|]. cbn [ascii_upper map all_ascii forallb]. rewrite ascii_upper_cp_ascii. f_equal. exact IH. Qed.

(* Comparison with an ASCII name WITHOUT 'k': Python's lower() and the ASCII-only lowering are interchangeable.
   ('k' is the only image in LOWER_SPECIAL that is ASCII-only.) *)
Definition k_free_ascii (n : list Z) : bool := forallb (fun c => (c <? 128) && negb (c =? 107)) n.
Lemma lower_special_images : forallb (fun p => existsb (fun y => (128 <=? y) || (y =? 107)) (snd p)) LOWER_SPECIAL = true.
Proof. vm_compute. reflexivity. Qed.
Theorem py_lower_is_ascii_lower s n : k_free_ascii n = true -> (py_lower s = n <-> ascii_lower s = n).
Proof.
  intros Hn. assert (Hbad : forall y, In y n -> y < 128 /\ y <> 107).
  { intros y Hy. pose proof (proj1 (forallb_forall _ _) Hn y Hy) as F. cbn beta in F. lia. }
  destruct (no_lower_special s) eqn:Es; [rewrite (py_lower_plain s Es); reflexivity|].
  split; intros H; exfalso.
  - destruct (py_lower_has_special s Es) as (x & l & _ & Hl & Hy).
    pose proof (proj1 (forallb_forall _ _) lower_special_images _ Hl) as F. cbn [snd] in F.
    apply existsb_exists in F. destruct F as (y & Iy & F). specialize (Hy y Iy). rewrite H in Hy. specialize (Hbad y Hy). lia.
  - destruct (py_lower_has_special s Es) as (x & l & Hx & Hl & _). apply lower_special_nonascii in Hl.
    assert (I : In (ascii_lower_cp x) n) by (rewrite <- H; apply in_map; exact Hx).
    specialize (Hbad _ I). unfold ascii_lower_cp in Hbad. destruct ((65 <=? x) && (x <=? 90)) eqn:E; lia.
Qed.

(* ------------------------------------------------------------------ why the tables suffice.
   [imgs] stands for the per-position images of CPython's s.lower() (or s.upper()): what the sweep established is that the
   image of a code point c is [f c] where [exact c] holds (c < 128 or c listed) and otherwise a NON-EMPTY string WITHOUT
   ASCII characters, whatever the context; the model keeps such a c, which is non-ASCII itself.  Then CPython's result
   [concat imgs] and the model's [flat_map f s] are equal to the same ASCII-only strings, and one is ASCII-only iff the
   other is. *)
Section Faithful.
  Variable f : Z -> list Z.
  Variable exact : Z -> bool.
  Hypothesis model_keeps : forall c, exact c = false -> f c = [c] /\ 128 <= c.
  Definition image_ok (c : Z) (img : list Z) : Prop :=
    if exact c then img = f c else img <> [] /\ forallb (fun y => 128 <=? y) img = true.

  Lemma faithful_exact s imgs :
    Forall2 image_ok s imgs -> forallb exact s = true -> concat imgs = flat_map f s.
  Proof.
    induction 1 as [|c img s imgs Hc Hr IH]; [reflexivity|]. cbn [forallb concat flat_map]. intros H.
    apply andb_prop in H. destruct H as [Hx Hs]. unfold image_ok in Hc. rewrite Hx in Hc. rewrite Hc, (IH Hs). reflexivity.
  Qed.
  Lemma faithful_inexact s imgs :
    Forall2 image_ok s imgs -> forallb exact s = false ->
    all_ascii (concat imgs) = false /\ all_ascii (flat_map f s) = false.
  Proof.
    induction 1 as [|c img s imgs Hc Hr IH]; [discriminate|]. cbn [forallb concat flat_map]. intros H.
    rewrite !all_ascii_app. destruct (exact c) eqn:Hx.
    - cbn [andb] in H. destruct (IH H) as [-> ->]. rewrite !andb_false_r. split; reflexivity.
    - unfold image_ok in Hc. rewrite Hx in Hc. destruct Hc as [Hne Hall]. destruct (model_keeps c Hx) as [-> Hge].
      split.
      + destruct img as [|y t]; [contradiction|]. cbn [forallb] in Hall. apply andb_prop in Hall. destruct Hall as [Hy _].
        cbn [all_ascii forallb]. replace (y <? 128) with false by lia. reflexivity.
      + cbn [all_ascii forallb]. replace (c <? 128) with false by lia. reflexivity.
  Qed.
  Theorem case_compare_faithful s imgs n :
    Forall2 image_ok s imgs -> all_ascii n = true -> (concat imgs = n <-> flat_map f s = n).
  Proof.
    intros HF Hn. destruct (forallb exact s) eqn:E.
    - rewrite (faithful_exact s imgs HF E). reflexivity.
    - destruct (faithful_inexact s imgs HF E) as [H1 H2]. split; intros H; exfalso.
      + rewrite H, Hn in H1. discriminate H1.
      + rewrite H, Hn in H2. discriminate H2.
  Qed.
  Theorem case_ascii_faithful s imgs :
    Forall2 image_ok s imgs ->
    all_ascii (concat imgs) = all_ascii (flat_map f s) /\ (all_ascii (concat imgs) = true -> concat imgs = flat_map f s).
  Proof.
    intros HF. destruct (forallb exact s) eqn:E.
    - rewrite (faithful_exact s imgs HF E). split; reflexivity.
    - destruct (faithful_inexact s imgs HF E) as [H1 H2]. rewrite H1, H2. split; [reflexivity|discriminate].
  Qed.
End Faithful.

(* the two instances: the model's code-point functions do keep every code point that is neither ASCII nor listed *)
Definition lower_exact (c : Z) : bool := (c <? 128) || memZ c (map fst LOWER_SPECIAL).
Definition upper_exact (c : Z) : bool := (c <? 128) || memZ c (map fst UPPER_SPECIAL).
Lemma py_lower_keeps c : lower_exact c = false -> py_lower_cp c = [c] /\ 128 <= c.
Proof.
  unfold lower_exact. intros H. apply orb_false_iff in H. destruct H as [Hc Hm]. split; [|lia].
  unfold py_lower_cp. rewrite (pc_assocZ_notin_None _ _ Hm). unfold ascii_lower_cp.
  destruct ((65 <=? c) && (c <=? 90)) eqn:E; [lia|reflexivity].
Qed.
Lemma py_upper_keeps c : upper_exact c = false -> py_upper_cp c = [c] /\ 128 <= c.
Proof.
  unfold upper_exact. intros H. apply orb_false_iff in H. destruct H as [Hc Hm]. split; [|lia].
  unfold py_upper_cp. rewrite (pc_assocZ_notin_None _ _ Hm). unfold ascii_upper_cp.
  destruct ((97 <=? c) && (c <=? 122)) eqn:E; [lia|reflexivity].
Qed.
Definition py_lower_faithful := case_compare_faithful py_lower_cp lower_exact py_lower_keeps.
Definition py_upper_faithful := case_compare_faithful py_upper_cp upper_exact py_upper_keeps.
Print Assumptions py_lower_faithful.
Print Assumptions py_upper_faithful.
Print Assumptions py_lower_idem.
Print Assumptions py_upper_idem.
Print Assumptions py_lower_is_ascii_lower.
