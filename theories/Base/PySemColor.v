(* PySemColor: the additions to Base/PySem.v / PySemExt.v / PySemIO.v that the translated colour helpers of
   segno/writers.py need (build/gen/SrcColor.v, written by gen/translate_colors.py): _alpha_value, _hex_to_rgb_or_rgba,
   _color_to_rgba, _color_to_rgb_or_rgba, _color_to_rgb, _color_is_black, _color_is_white, _color_to_webcolor,
   _make_colormap.  Hand-written and trusted like Base/PySem.v (DESIGN.md 11.6 / 11.14).

   str        A Python `str` is the [list Z] of its code points (the convention of PySemIO.v / Model/Color.v).  The
              semantics below is Python's for ASCII strings (all code points below 128), which is what the typing of the
              translated functions declares; nothing here checks it (int() accepts Unicode digits beyond ASCII).
              `s.lower()` is [py_str_lower] = Base/PyCase.v [py_lower]: on EVERY str CPython's as far as ASCII characters
              are concerned (the Kelvin sign U+212A lowers to 'k', U+0130 to 'i' + U+0307; a non-ASCII code point whose
              image has no ASCII character is kept) -- exact for the comparisons with ASCII names / literals, the only
              use the colour code makes of the lowered string (DESIGN.md 11.14.1).
              `s[i]` is the one-character str [py_str_index] (IndexError), iteration over a str yields its one-character
              strs ([py_str_chars]), `a in b` is the substring test [py_str_in].
   int(s, 16) CPython's PyLong_FromString with base 16 ([py_int_str16]): surrounding Py_ISSPACE whitespace (space, \t \n \v
              \f \r), one optional sign, an optional prefix 0x / 0X (after which one underscore is allowed), then
              hexadecimal digits with single underscores between digits; anything else is ValueError.
   numbers    An item of a colour tuple is an int or a float: [py_cnum].  Floats are binary64 (PySemExt.py_float =
              PrimFloat.float, evaluated by the kernel with the machine's round-to-nearest-even operations, as CPython).
              `==` between numbers is exact, also between an int and a float ([py_cnum_eqb]: CPython compares the
              mathematical values), `nan != nan`, `-0.0 == 0`.
   '%.Nf' % x [py_fmt_pct_f N x], total: the exact value of the finite float x, rounded to N decimals, ties to even
              (CPython formats with David Gay's correctly rounded dtoa, mode 3), sign from the sign bit ('-0.00'); 'nan',
              'inf', '-inf'.
   float(s)   [py_float_of_str]: exact for the strings  [-]digits[.digits]  with at most 15 decimals and an integer
              mantissa below 2^53 (the result is the correctly rounded quotient mantissa / 10^decimals, one IEEE division
              of two exactly representable numbers), and for 'nan', 'inf', '-inf'.  Every other string -- among them those
              for which Python raises ValueError -- gives the marker [py_unmodelled] of PySemExt.v ("outside the model").
   marker     As in PySemExt.v: `src_f args = Ok v`, and `= Err e` with e <> py_unmodelled, are exact statements.
              gen/translate_colors.py never lets a handler catch the marker: `except ValueError` is emitted without the
              constructor UnicodeErr (= py_unmodelled), and a function whose try bodies could raise a genuine UnicodeError
              (str.encode) is refused.
   dicts      `D.get(k, default)` for a module-level dict with int keys dumped in insertion order: [py_dict_get_default];
              `_NAME2RGB[name]` (SrcTables.NAME2RGB, names as code points, values (r, g, b)): [py_name2rgb_get], KeyError
              for a missing name, the value as the tuple [r; g; b]. *)
From Coq Require Import ZArith List Bool Lia.
From Coq Require Import PrimFloat Uint63 FloatClass.
From Segno Require Import Base.PyLite Base.PySem Base.PySemExt Base.PySemIO.
From Segno Require Base.PyCase.
Import ListNotations.
Open Scope Z_scope.

(* ------------------------------------------------------------------ str *)
Definition py_str_lower (s : list Z) : list Z := PyCase.py_lower s.
Definition py_str_index (s : list Z) (i : Z) : res (list Z) := do c <- py_index s i; Ok [c].
Definition py_str_chars (s : list Z) : list (list Z) := map (fun c => [c]) s.
(* needle in hay: substring test (the empty str is in every str) *)
Definition py_str_in (needle hay : list Z) : bool := 0 <=? py_find hay needle 0.
(* all(seq) for a sequence of bools *)
Definition py_all (l : list bool) : bool := forallb (fun b => b) l.

(* ------------------------------------------------------------------ int(s, 16) *)
Definition py_hex_digit_val (c : Z) : option Z :=
  if (48 <=? c) && (c <=? 57) then Some (c - 48)
  else if (97 <=? c) && (c <=? 102) then Some (c - 87)
  else if (65 <=? c) && (c <=? 70) then Some (c - 55) else None.
Definition py_is_space (b : Z) : bool := (b =? 32) || ((9 <=? b) && (b <=? 13)).      (* Py_ISSPACE *)
Fixpoint py_drop_spaces (l : list Z) : list Z :=
  match l with
  | b :: r => if py_is_space b then py_drop_spaces r else l
  | [] => []
  end.
(* hexadecimal digits, single underscores between digits, then optional trailing whitespace up to the end *)
Fixpoint py_int16_body (l : list Z) (acc : Z) (last_digit : bool) : option Z :=
  match l with
  | [] => if last_digit then Some acc else None
  | b :: r =>
      match py_hex_digit_val b with
      | Some d => py_int16_body r (16 * acc + d) true
      | None =>
          if b =? 95 then (if last_digit then py_int16_body r acc false else None)
          else if py_is_space b then (if last_digit && forallb py_is_space r then Some acc else None)
          else None
      end
  end.
(* after the sign: a leading underscore is refused; the prefix 0x / 0X may be followed by one underscore *)
Definition py_int16_unsigned (l : list Z) : option Z :=
  match l with
  | 48 :: x :: r =>
      if (x =? 120) || (x =? 88)
      then match r with 95 :: r' => py_int16_body r' 0 false | _ => py_int16_body r 0 false end
      else py_int16_body l 0 false
  | _ => py_int16_body l 0 false
  end.
Definition py_int_str16 (s : list Z) : res Z :=
  let l := py_drop_spaces s in
  let v := match l with
           | 43 :: r => py_int16_unsigned r
           | 45 :: r => option_map Z.opp (py_int16_unsigned r)
           | _ => py_int16_unsigned l
           end in
  match v with Some z => Ok z | None => Err ValueError end.

(* ------------------------------------------------------------------ floats *)
Definition py_float_is_nan (x : py_float) : bool := negb (PrimFloat.eqb x x).
Definition py_float_is_inf (x : py_float) : bool := PrimFloat.eqb (PrimFloat.abs x) PrimFloat.infinity.
Definition py_float_sign (x : py_float) : bool :=                                  (* the sign bit *)
  match PrimFloat.classify x with NNormal | NSubn | NZero | NInf => true | _ => false end.
(* |x| = mant * 2^ex for a finite x (frshiftexp: |x| = m * 2^(e - 2101) with m in [0.5, 1) or m = 0;
   normfr_mantissa m = m * 2^53) *)
Definition py_float_parts (x : py_float) : Z * Z :=
  let '(m, e) := PrimFloat.frshiftexp (PrimFloat.abs x) in
  (Uint63.to_Z (PrimFloat.normfr_mantissa m), Uint63.to_Z e - 2101 - 53).
(* the int a finite float with an integral value equals *)
Definition py_float_int_val (x : py_float) : option Z :=
  if py_float_is_nan x || py_float_is_inf x then None
  else let '(mant, ex) := py_float_parts x in
       let s := if py_float_sign x then -1 else 1 in
       if 0 <=? ex then Some (s * Z.shiftl mant ex)
       else if Z.land mant (Z.ones (- ex)) =? 0 then Some (s * Z.shiftr mant (- ex)) else None.

(* an item of a colour tuple: int or float *)
Inductive py_cnum := PyNInt (z : Z) | PyNFlt (x : py_float).
Definition py_cnum_is_float (a : py_cnum) : bool := match a with PyNFlt _ => true | PyNInt _ => false end.
Definition py_int_float_eqb (z : Z) (x : py_float) : bool :=
  match py_float_int_val x with Some y => z =? y | None => false end.
Definition py_cnum_eqb (a b : py_cnum) : bool :=
  match a, b with
  | PyNInt x, PyNInt y => x =? y
  | PyNFlt x, PyNFlt y => PrimFloat.eqb x y
  | PyNInt z, PyNFlt x | PyNFlt x, PyNInt z => py_int_float_eqb z x
  end.
Fixpoint py_cnums_eqb (a b : list py_cnum) : bool :=
  match a, b with
  | [], [] => true
  | x :: a', y :: b' => py_cnum_eqb x y && py_cnums_eqb a' b'
  | _, _ => false
  end.
Definition py_cnums_of_ints (l : list Z) : list py_cnum := map PyNInt l.
Definition py_cnums_of_floats (l : list py_float) : list py_cnum := map PyNFlt l.

Definition py_float_leb (a b : py_float) : bool := PrimFloat.leb a b.
Definition py_float_ltb (a b : py_float) : bool := PrimFloat.ltb a b.
Definition py_float_eqb (a b : py_float) : bool := PrimFloat.eqb a b.

(* n / d (n >= 0, d > 0) rounded to the nearest integer, ties to even *)
Definition py_round_half_even (n d : Z) : Z :=
  let q := n / d in let r := n mod d in
  if 2 * r <? d then q else if d <? 2 * r then q + 1 else if Z.even q then q else q + 1.
(* exactly k decimal digits of n (0 <= n < 10^k), most significant first *)
Fixpoint py_dec_pad (k : nat) (n : Z) (acc : list Z) : list Z :=
  match k with O => acc | S k' => py_dec_pad k' (n / 10) ((48 + n mod 10) :: acc) end.
(* '%.<prec>f' % x *)
Definition py_fmt_pct_f (prec : Z) (x : py_float) : list Z :=
  if py_float_is_nan x then [110; 97; 110]                                                        (* 'nan' *)
  else if py_float_is_inf x then (if py_float_sign x then [45; 105; 110; 102] else [105; 110; 102])   (* '-inf' / 'inf' *)
  else
    let '(mant, ex) := py_float_parts x in
    let p := Z.pow 10 prec in
    let n := if 0 <=? ex then Z.shiftl (mant * p) ex else py_round_half_even (mant * p) (Z.pow 2 (- ex)) in
    (if py_float_sign x then [45] else []) ++ py_str_int (n / p)
    ++ (if prec <=? 0 then [] else 46 :: py_dec_pad (Z.to_nat prec) (n mod p) []).

(* float(s) *)
Definition py_is_digit (c : Z) : bool := (48 <=? c) && (c <=? 57).
Fixpoint py_digits_val (l : list Z) (acc : Z) : Z :=
  match l with [] => acc | d :: r => py_digits_val r (10 * acc + (d - 48)) end.
Fixpoint py_split_point (l : list Z) (int_part : list Z) : list Z * option (list Z) :=
  match l with
  | [] => (rev int_part, None)
  | c :: r => if c =? 46 then (rev int_part, Some r) else py_split_point r (c :: int_part)
  end.
Definition py_float_of_decimal (s : list Z) : option py_float :=
  let '(ip, fp) := py_split_point s [] in
  let fd := match fp with Some f => f | None => [] end in
  let frac_ok := match fp with Some [] => false | _ => true end in
  if negb (lenZ ip =? 0) && frac_ok && forallb py_is_digit ip && forallb py_is_digit fd && (lenZ fd <=? 15) then
    let m := py_digits_val (ip ++ fd) 0 in
    if m <? 9007199254740992 then Some (PrimFloat.div (py_float_of_Z m) (py_float_of_Z (Z.pow 10 (lenZ fd)))) else None
  else None.
Definition py_float_of_str (s : list Z) : res py_float :=
  if py_list_eqb s [110; 97; 110] then Ok PrimFloat.nan
  else if py_list_eqb s [105; 110; 102] then Ok PrimFloat.infinity
  else if py_list_eqb s [45; 105; 110; 102] then Ok PrimFloat.neg_infinity
  else match s with
       | 45 :: r => match py_float_of_decimal r with Some x => Ok (PrimFloat.opp x) | None => Err py_unmodelled end
       | _ => match py_float_of_decimal s with Some x => Ok x | None => Err py_unmodelled end
       end.

(* ------------------------------------------------------------------ dicts *)
Definition py_dict_get_default {A} (d : list (Z * A)) (k : Z) (default : A) : A :=
  match assocZ k d with Some v => v | None => default end.
Fixpoint py_name2rgb_get (tbl : list (list Z * (Z * Z * Z))) (k : list Z) : res (list Z) :=
  match tbl with
  | [] => Err KeyErr
  | (k', (r, g, b)) :: t => if py_list_eqb k k' then Ok [r; g; b] else py_name2rgb_get t k
  end.

(* ------------------------------------------------------------------ colours *)
(* color.lower(): a tuple has no such method *)
Definition py_color_lower (c : py_color) : res py_color :=
  match c with PyCStr s => Ok (PyCStr (py_str_lower s)) | PyCTuple _ => Err AttributeErr end.
(* color == '<str>' / color == (<numbers>): a str never equals a tuple *)
Definition py_color_eq_str (c : py_color) (s : list Z) : bool :=
  match c with PyCStr t => py_list_eqb t s | PyCTuple _ => false end.
Definition py_color_eq_tuple (c : py_color) (t : list py_cnum) : bool :=
  match c with PyCStr _ => false | PyCTuple p => py_cnums_eqb (py_cnums_of_ints p) t end.
(* `x is not False` for a colour option of _make_colormap: the default False means "not given" *)
Definition py_colour_given {A} (o : option A) : bool := match o with Some _ => true | None => false end.

(* f( *pair, ...) for a function with two leading positional parameters: a wrong number of arguments is TypeError *)
Definition py_star_args2 {A} (l : list A) : res (A * A) :=
  match l with [a; b] => Ok (a, b) | _ => Err TypeErr end.

(* the result of _color_to_webcolor: a str, or the tuple (str, alpha) *)
Inductive py_webcolor := PyWPlain (s : list Z) | PyWAlpha (s : list Z) (alpha : py_cnum).

(* ------------------------------------------------------------------ checked against CPython 3.12 on examples *)
Set Warnings "-inexact-float".
(* int(s, 16): '0x_f' 15, 'f_f' 255, ' +f ' 15, '\tf\n' 15, '-0x_1' -1, '0X1' 1, '00' 0, '0b1' 177, '1e' 30, '0_1' 1;
   ValueError for '0x__f' '_f' 'f_' 'f__f' '0x' '+ f' '0_x1' '0x 1' '' ' ' '+' '\x1cf' 'f\x1f' '+-1' '0xg' '0x0x1' 'x1' '1_' *)
Example ex_int16_ok :
  map py_int_str16 [[48;120;95;102]; [102;95;102]; [32;43;102;32]; [9;102;10]; [45;48;120;95;49]; [48;88;49]; [48;48];
                    [48;98;49]; [49;101]; [48;95;49]; [70;102]; [48;97]]
  = map Ok [15; 255; 15; 15; -1; 1; 0; 177; 30; 1; 255; 10].
Proof. vm_compute. reflexivity. Qed.
Example ex_int16_err :
  forallb (fun s => match py_int_str16 s with Err ValueError => true | _ => false end)
    [[48;120;95;95;102]; [95;102]; [102;95]; [102;95;95;102]; [48;120]; [43;32;102]; [48;95;120;49]; [48;120;32;49]; [];
     [32]; [43]; [28;102]; [102;31]; [43;45;49]; [48;120;103]; [48;120;48;120;49]; [120;49]; [49;95]; [103;48]; [48;103]]
  = true.
Proof. vm_compute. reflexivity. Qed.
(* '%.02f' % x: 0.125 -> '0.12', 0.375 -> '0.38', -0.001 -> '-0.00', 0.005 -> '0.01', 0.015 -> '0.01', 129/255.0 -> '0.51',
   1e22 -> '10000000000000000000000.00', 2.675 -> '2.67', nan, -inf; '%.0f' % 2.5 -> '2', '%.3f' % 1.0005 -> '1.000' *)
Example ex_fmt_pct :
  (map (py_fmt_pct_f 2) [0.125; 0.375; -0.001; 0.005; 0.015; PrimFloat.div 129 255; 2.675; 0; -0; PrimFloat.nan;
                         PrimFloat.neg_infinity; 1]%float,
   py_fmt_pct_f 0 2.5%float, py_fmt_pct_f 3 1.0005%float, py_fmt_pct_f 2 1e22%float)
  = ([[48;46;49;50]; [48;46;51;56]; [45;48;46;48;48]; [48;46;48;49]; [48;46;48;49]; [48;46;53;49]; [50;46;54;55];
      [48;46;48;48]; [45;48;46;48;48]; [110;97;110]; [45;105;110;102]; [49;46;48;48]],
     [50], [49;46;48;48;48],
     [49;48;48;48;48;48;48;48;48;48;48;48;48;48;48;48;48;48;48;48;48;48;48;46;48;48]).
Proof. vm_compute. reflexivity. Qed.
(* float('0.51') == 0.51, float('-0.00') is -0.0, float('12') == 12.0, float('0.0625') == 0.0625 *)
Example ex_float_of_str :
  (py_float_of_str [48;46;53;49], py_float_of_str [45;48;46;48;48], py_float_of_str [49;50], py_float_of_str [48;46;48;54;50;53],
   py_float_of_str [46;53], py_float_of_str [49;46], py_float_of_str [49;101;51])
  = (Ok 0.51%float, Ok (-0)%float, Ok 12%float, Ok 0.0625%float, Err py_unmodelled, Err py_unmodelled, Err py_unmodelled).
Proof. vm_compute. reflexivity. Qed.
(* 1 == 1.0, 0 == -0.0, 1 != 1.5, 2**53 + 1 != 2.0**53, 255 == 255.0, nan != nan *)
Example ex_cnum_eqb :
  (py_cnum_eqb (PyNInt 1) (PyNFlt 1), py_cnum_eqb (PyNInt 0) (PyNFlt (-0)), py_cnum_eqb (PyNInt 1) (PyNFlt 1.5),
   py_cnum_eqb (PyNInt 9007199254740993) (PyNFlt 9007199254740992), py_cnum_eqb (PyNFlt 255) (PyNInt 255),
   py_cnum_eqb (PyNFlt PrimFloat.nan) (PyNFlt PrimFloat.nan), py_cnum_eqb (PyNInt (-3)) (PyNFlt (-3)),
   py_cnum_eqb (PyNInt 9007199254740992) (PyNFlt 9007199254740992), py_cnum_eqb (PyNInt 0) (PyNFlt 5e-324))%float
  = (true, true, false, false, true, false, true, true, false).
Proof. vm_compute. reflexivity. Qed.
(* 'A#z'.lower() == 'a#z'; '#' in '0123'; 'ab' in 'xabc'; '' in 'abc'; 'ac' not in 'abc' *)
Example ex_str : (py_str_lower [65; 35; 122; 90], py_str_in [35] [48;49], py_str_in [97;98] [120;97;98;99], py_str_in [] [97],
                  py_str_in [97;99] [97;98;99], py_str_index [97;98] (-1), py_str_index [97] 1)
                 = ([97; 35; 122; 122], false, true, true, false, Ok [98], Err IndexErr).
Proof. vm_compute. reflexivity. Qed.
