(* PyLite: the fragment of Python semantics that the translated sources and the model rely on.
   Python ints are unbounded -> Z.  `//` is floor division (= Z.div), `%` has the sign of the
   divisor (= Z.modulo).  Partial operations (indexing, dict lookup) return [res]. *)
From Coq Require Import ZArith List Bool Lia.
From Coq Require String Ascii.
Import ListNotations.
Open Scope Z_scope.

Inductive exn := ValueError | DataOverflow | UnicodeErr | LookupErr | IndexErr | KeyErr
               | TypeErr | AssertErr | AttributeErr.

Inductive res (A : Type) : Type := Ok (a : A) | Err (e : exn).
Arguments Ok {A} a.
Arguments Err {A} e.

Definition bind {A B} (r : res A) (f : A -> res B) : res B :=
  match r with Ok a => f a | Err e => Err e end.
Notation "'do' x <- r ; k" := (bind r (fun x => k)) (at level 200, x pattern, r at level 100, k at level 200).

Definition exn_eqb (a b : exn) : bool :=
  match a, b with
  | ValueError, ValueError | DataOverflow, DataOverflow | UnicodeErr, UnicodeErr
  | LookupErr, LookupErr | IndexErr, IndexErr | KeyErr, KeyErr | TypeErr, TypeErr
  | AssertErr, AssertErr | AttributeErr, AttributeErr => true
  | _, _ => false end.

Definition py_floordiv (a b : Z) : Z := Z.div a b.
Definition py_mod (a b : Z) : Z := Z.modulo a b.

Definition oz_eqb (a b : option Z) : bool :=
  match a, b with
  | None, None => true
  | Some x, Some y => Z.eqb x y
  | _, _ => false end.

(* dict lookups *)
Fixpoint assocZ {A} (k : Z) (l : list (Z * A)) : option A :=
  match l with [] => None | (k', v) :: r => if Z.eqb k k' then Some v else assocZ k r end.
Fixpoint assocOZ {A} (k : option Z) (l : list (option Z * A)) : option A :=
  match l with [] => None | (k', v) :: r => if oz_eqb k k' then Some v else assocOZ k r end.
Fixpoint assocS {A} (k : String.string) (l : list (String.string * A)) : option A :=
  match l with [] => None | (k', v) :: r => if String.eqb k k' then Some v else assocS k r end.

Definition getZ {A} (k : Z) (l : list (Z * A)) : res A :=
  match assocZ k l with Some v => Ok v | None => Err KeyErr end.
Definition getOZ {A} (k : option Z) (l : list (option Z * A)) : res A :=
  match assocOZ k l with Some v => Ok v | None => Err KeyErr end.

(* sequence indexing with a non-negative index; out of range -> IndexErr *)
Definition nthZ {A} (l : list A) (i : Z) : res A :=
  if i <? 0 then Err IndexErr else
  match nth_error l (Z.to_nat i) with Some v => Ok v | None => Err IndexErr end.
(* Python indexing, negative indices count from the end *)
Definition py_index {A} (l : list A) (i : Z) : res A :=
  nthZ l (if i <? 0 then i + Z.of_nat (length l) else i).

Definition memZ (x : Z) (l : list Z) : bool := existsb (Z.eqb x) l.
Definition memOZ (x : option Z) (l : list (option Z)) : bool := existsb (oz_eqb x) l.

Definition lenZ {A} (l : list A) : Z := Z.of_nat (length l).

(* integer ranges *)
Fixpoint zrange_aux (n : nat) (a : Z) : list Z :=
  match n with O => [] | S k => a :: zrange_aux k (a + 1) end.
(* range(a, b) *)
Definition zrange (a b : Z) : list Z := zrange_aux (Z.to_nat (b - a)) a.

Lemma zrange_aux_In n : forall a x, a <= x < a + Z.of_nat n -> In x (zrange_aux n a).
Proof.
  induction n as [|n IH]; intros a x H; cbn [zrange_aux]; [lia|].
  destruct (Z.eq_dec a x) as [->|Hne]; [now left|right]. apply IH. lia.
Qed.
Lemma zrange_aux_In_inv n : forall a x, In x (zrange_aux n a) -> a <= x < a + Z.of_nat n.
Proof.
  induction n as [|n IH]; intros a x H; cbn [zrange_aux] in H; [destruct H|].
  destruct H as [<-|H]; [lia|]. apply IH in H. lia.
Qed.
Lemma zrange_In a b x : a <= x < b -> In x (zrange a b).
Proof. intros H. unfold zrange. apply zrange_aux_In. lia. Qed.
Lemma zrange_In_inv a b x : In x (zrange a b) -> a <= x < b.
Proof. unfold zrange. intros H. apply zrange_aux_In_inv in H. lia. Qed.
Lemma zrange_aux_length n a : length (zrange_aux n a) = n.
Proof. revert a; induction n as [|n IH]; intros a; cbn; auto. Qed.
Lemma zrange_aux_NoDup n : forall a, NoDup (zrange_aux n a).
Proof.
  induction n as [|n IH]; intros a; cbn [zrange_aux]; constructor; auto.
  intro H. apply zrange_aux_In_inv in H. lia.
Qed.
