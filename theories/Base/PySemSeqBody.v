(* PySemSeqBody: the additions to Base/PySem*.v that the translated BODY of encode_sequence needs
   (build/gen/SrcSeqBody.v, written by gen/translate_seqbody.py).  Hand-written and trusted like Base/PySem.v
   (DESIGN.md 11.6 / 11.19).

   or.       `a or b` as a value on two ints: a unless it is 0.
   max.      `max(seq, key=len)`: CPython's min_max keeps the FIRST item whose key is maximal (a later item replaces
             the current one only if its key is strictly greater); ValueError on an empty sequence.
   arguments. A value that may be None passed where the callee is translated for an int (`version` of `_encode`,
             which `encode_sequence` passes as it is): [py_arg_int] is the value itself; for None the callee is not
             translated (in Python `_encode(.., version=None, ..)` fails with TypeError at its first statement
             `version < 1`, but that is a fact about the callee, not part of this semantics), so the result is the marker
             [Err py_unmodelled] of Base/PySemExt.v / PySemGlue.v, with the same reading: `src_f args = Ok v` and
             `src_f args = Err e` with e <> py_unmodelled are exact statements about the Python run.  No handler of the
             translated code can catch the marker: gen/translate_glue.py refuses such operations inside a `try`
             whose handler would.
   partial.  `partial(_StructuredAppendInfo, total=t, parity=p)` has no counterpart here: the translator evaluates t and p
             where `partial` is called and writes the tuple `_StructuredAppendInfo.__new__` builds at every call of the
             object (functools.partial(f, **kw)(x) = f(x, **kw)). *)
From Coq Require Import String.
From Coq Require Import ZArith List Bool Lia.
From Segno Require Import Base.PyLite Base.PySem Base.PySemSeg Base.PySemGlue.
Import ListNotations.
Open Scope Z_scope.

Definition py_z_or (a b : Z) : Z := if a =? 0 then b else a.

Fixpoint py_max_by_len_from {A} (best : list A) (l : list (list A)) : list A :=
  match l with
  | [] => best
  | c :: r => if lenZ best <? lenZ c then py_max_by_len_from c r else py_max_by_len_from best r
  end.
Definition py_max_by_len {A} (l : list (list A)) : res (list A) :=
  match l with [] => Err ValueError | c :: r => Ok (py_max_by_len_from c r) end.

Definition py_arg_int (v : option Z) : res Z :=
  match v with Some x => Ok x | None => Err py_unmodelled end.

(* checked against CPython 3.12:
     max([b'ab', b'cde', b'xyz', b'q'], key=len) == b'cde'; max([b'', b''], key=len) == b''; max([], key=len) -> ValueError;
     (0 or 16, 5 or 16, -1 or 16) == (16, 5, -1) *)
Example max_by_len_examples :
  py_max_by_len [[97; 98]; [99; 100; 101]; [120; 121; 122]; [113]] = Ok [99; 100; 101]
  /\ py_max_by_len [@nil Z; []] = Ok [] /\ py_max_by_len (@nil (list Z)) = Err ValueError
  /\ py_max_by_len [[1]; [2]; [3]] = Ok [1].
Proof. repeat split; reflexivity. Qed.
Example z_or_examples : (py_z_or 0 16, py_z_or 5 16, py_z_or (-1) 16) = (16, 5, -1).
Proof. reflexivity. Qed.

(* generic facts used by the bridge proofs *)
Lemma py_z_or_nonzero a b : a <> 0 -> py_z_or a b = a.
Proof. intros H. unfold py_z_or. destruct (a =? 0) eqn:E; [lia|reflexivity]. Qed.

Lemma py_max_by_len_from_In {A} : forall (l : list (list A)) best,
  py_max_by_len_from best l = best \/ In (py_max_by_len_from best l) l.
Proof.
  induction l as [|c r IH]; intros best; cbn [py_max_by_len_from]; [now left|].
  destruct (lenZ best <? lenZ c).
  - destruct (IH c) as [H|H]; [right; left; now rewrite H|right; now right].
  - destruct (IH best) as [H|H]; [now left|right; now right].
Qed.

Lemma py_max_by_len_In {A} (l : list (list A)) c : py_max_by_len l = Ok c -> In c l.
Proof.
  destruct l as [|x r]; cbn [py_max_by_len]; [discriminate|]. intros [= <-].
  destruct (py_max_by_len_from_In r x) as [H|H]; [left; now rewrite H|now right].
Qed.
