(* PySemGlue: the additions to Base/PySem.v / PySemSeg.v that the translated glue of segno/encoder.py needs
   (build/gen/SrcSegments.v, SrcNorm.v, SrcSeq.v, SrcEncodeTop.v, written by gen/translate_glue.py): Segments.__init__ /
   add_segment, prepare_data, the normalize_* functions, the nested helpers of encode_sequence, encode().
   Hand-written and trusted like Base/PySem.v (DESIGN.md 11.6 / 11.11).

   Outcomes outside PyLite.exn.  ZeroDivisionError, and values outside the declared types (see `py_pitem` below), are reported
             as [Err py_unmodelled] -- the marker of Base/PySemExt.v, with the same reading: `src_f args = Ok v` and
             `src_f args = Err e` with e <> py_unmodelled are exact statements about the Python run; the translator refuses
             operations that can produce the marker inside a `try` whose handler would catch it.
   str.      A Python `str` is the list of its code points (type 'ustr').  == is Python's.  upper() / lower() are
             Base/PyCase.v [py_upper] / [py_lower]: CPython's on ASCII strings and, on every str, CPython's as far as
             ASCII characters are concerned (the Kelvin sign U+212A lowers to 'k', U+017F uppers to 'S', ...; a
             non-ASCII code point whose image has no ASCII character is kept) -- exact for the only use the
             translated functions make of them, the lookup in a dict with ASCII keys (DESIGN.md 11.14.1).
             int(s) is CPython 3.12's for EVERY str (Objects/longobject.c PyLong_FromUnicodeObject).  A pure-ASCII str
             goes as it is to PyLong_FromString with base 10, the very function int(bytes) ends in
             (PySemSeg.py_int_bytes); its whitespace is Py_ISSPACE (space, \t \n \v \f \r): the str.isspace characters
             \x1c .. \x1f are NOT skipped (int('\x1c5') raises ValueError).  A str with a code point >= 128 is first
             rewritten by _PyUnicode_TransformDecimalAndSpaceToASCII: code points below 127 stay (so \x1c .. \x1f are
             not skipped on this path either: int('\x1c5\u2003') raises ValueError), Py_UNICODE_ISSPACE code points
             become ' ', Unicode decimal digits their ASCII digit, everything else '?' (refused by the parser wherever
             it stands; CPython cuts the text after the first one): int('\u20035\xa0') = int('\uff15') = int('\u0665')
             = 5.  Tables: Unicode 15.0.0 (unicodedata.unidata_version of CPython 3.12), py_unicode_spaces = [c for c
             in range(127, 0x110000) if chr(c).isspace()], py_decimal_zeros = [c for c in range(0x110000) if
             unicodedata.decimal(chr(c), None) == 0]; the digits are z .. z + 9 for the listed z.  A text with more
             than sys.get_int_max_str_digits() = 4300 (default) digit characters raises ValueError.
   objects.  A method that changes `self` through its slots is translated on the slot values (gen/translate_glue.py
             replaces `self.F` by a local variable) and returns the record of the final values.
   del l[i]  (rewritten to the statement `l.pop(i)`): IndexError outside the list, negative indices count from the end.
   items.    [py_pitem] is an item of the content sequence given to prepare_data: a bytes object, or a tuple
             (content,), (content, mode) or (content, mode, encoding) with content : bytes, mode : int or None,
             encoding : str or None.  Other items (str / int content, the empty tuple, longer tuples, tuples with other
             field types) are outside the type.  Operations that Python defines on such an item with a result outside
             the type (item[0] of a bytes object is an int; a tuple used as the data of make_segment goes through
             str()) give the marker.
   ceil.     `math.ceil(a / b)` for ints: a / b is the correctly rounded binary64 value q of the quotient.  For 0 <= a < 2^52
             and 0 < b < 2^52 the ceiling of q is the exact ceiling of a / b.  Let n = a // b (so n * b <= a < 2^52).  If b
             divides a, the quotient n < 2^52 is representable and q = n.  Otherwise n < a / b < n + 1 with n and n + 1
             representable, so n <= q <= n + 1 (rounding is monotone), and q = n is impossible: for n = 0 the quotient is at
             least 1 / b > 2^-52, far above the smallest positive double; for n >= 1 the doubles in [n, n + 1) are at most
             n * 2^-52 apart, so q = n would need a / b - n <= n * 2^-53 < 1 / (2 * b) (because n * b < 2^52), whereas
             a / b - n >= 1 / b.  Hence n < q <= n + 1 and ceil(q) = n + 1.  Outside that range -- and for b = 0, where Python
             raises ZeroDivisionError -- the result is the marker.  [ceil_truediv_examples] runs the float computation in the
             kernel on boundary cases. *)
From Coq Require Import String.
From Coq Require Import ZArith List Bool Lia.
From Segno Require Import Base.PyLite Base.PySem Base.PySemSeg.
From Segno Require Base.PySemExt.
From Segno Require Base.PyCase.
From Coq Require PrimFloat.
Import ListNotations.
Open Scope Z_scope.

Definition py_unmodelled : exn := UnicodeErr.      (* the marker of Base/PySemExt.v *)

(* ------------------------------------------------------------------ arithmetic with a run-time divisor *)
Definition py_mod_res (a b : Z) : res Z := if b =? 0 then Err py_unmodelled else Ok (Z.modulo a b).
Definition py_floordiv_res (a b : Z) : res Z := if b =? 0 then Err py_unmodelled else Ok (Z.div a b).
Definition py_divmod_res (a b : Z) : res (Z * Z) := if b =? 0 then Err py_unmodelled else Ok (Z.div a b, Z.modulo a b).

(* math.ceil(a / b) for ints *)
Definition py_ceil_truediv (a b : Z) : res Z :=
  if (0 <=? a) && (a <? 4503599627370496) && (0 <? b) && (b <? 4503599627370496)
  then Ok (- ((- a) / b)) else Err py_unmodelled.

(* functools.reduce(operator.xor, seq): TypeError on an empty sequence *)
Definition py_reduce_xor (l : list Z) : res Z :=
  match l with [] => Err TypeErr | x :: r => Ok (fold_left Z.lxor r x) end.

(* ------------------------------------------------------------------ dict literals, `or` as a value, None-able strings *)
(* {k1: v1, ...}.get(k, d) for a literal with distinct int keys *)
Definition py_dict_get {A} (d : list (Z * A)) (k : Z) (default : A) : A :=
  match assocZ k d with Some v => v | None => default end.

Definition py_ostr_eqb (a b : option String.string) : bool :=
  match a, b with None, None => true | Some x, Some y => String.eqb x y | _, _ => false end.

(* a or b: a unless it is falsy (None, 0, '') *)
Definition py_oz_or (a b : option Z) : option Z :=
  match a with Some x => if x =? 0 then b else a | None => b end.
Definition py_ostr_or (a b : option String.string) : option String.string :=
  match a with Some s => if String.eqb s EmptyString then b else a | None => b end.

(* ------------------------------------------------------------------ del l[i] *)
Definition py_del_item {A} (l : list A) (i : Z) : res (list A) :=
  do k <- py_norm_index (lenZ l) i; Ok (firstn (Z.to_nat k) l ++ skipn (S (Z.to_nat k)) l).

(* ------------------------------------------------------------------ str as the list of its code points *)
Definition py_unicode_spaces : list Z :=
  [133; 160; 5760; 8192; 8193; 8194; 8195; 8196; 8197; 8198; 8199; 8200; 8201; 8202; 8232; 8233; 8239; 8287; 12288].
Definition py_decimal_zeros : list Z :=
  [48; 1632; 1776; 1984; 2406; 2534; 2662; 2790; 2918; 3046; 3174; 3302; 3430; 3558; 3664; 3792; 3872;
   4160; 4240; 6112; 6160; 6470; 6608; 6784; 6800; 6992; 7088; 7232; 7248; 42528; 43216; 43264; 43472;
   43504; 43600; 44016; 65296; 66720; 68912; 69734; 69872; 69942; 70096; 70384; 70736; 70864; 71248;
   71360; 71472; 71904; 72016; 72784; 73040; 73120; 73552; 92768; 92864; 93008; 120782; 120792; 120802;
   120812; 120822; 123200; 123632; 124144; 125264; 130032].
(* Py_UNICODE_TODECIMAL *)
Fixpoint py_to_decimal (c : Z) (zeros : list Z) : option Z :=
  match zeros with
  | [] => None
  | z :: r => if (z <=? c) && (c <=? z + 9) then Some (c - z) else py_to_decimal c r
  end.
(* _PyUnicode_TransformDecimalAndSpaceToASCII, one code point *)
Definition py_transform_cp (c : Z) : Z :=
  if c <? 127 then c
  else if existsb (Z.eqb c) py_unicode_spaces then 32
  else match py_to_decimal c py_decimal_zeros with Some d => 48 + d | None => 63 end.
Definition py_ustr_is_ascii (s : list Z) : bool := forallb (fun c => c <? 128) s.
Definition py_int_max_str_digits : Z := 4300.
Definition py_int_ustr (s : list Z) : res Z :=
  let t := if py_ustr_is_ascii s then s else map py_transform_cp s in
  if py_int_max_str_digits <? lenZ (filter py_is_ascii_digit t) then Err ValueError else py_int_bytes t.
Definition py_ustr_upper (s : list Z) : list Z := PyCase.py_upper s.
Definition py_ustr_lower (s : list Z) : list Z := PyCase.py_lower s.

(* the str-keyed dicts of consts.py are dumped with Coq strings as keys *)
Fixpoint py_ustr_of_string (s : String.string) : list Z :=
  match s with EmptyString => [] | String a r => Z.of_nat (Ascii.nat_of_ascii a) :: py_ustr_of_string r end.
(* D[key]: KeyError for a missing key *)
Fixpoint py_get_ustr (k : list Z) (d : list (String.string * Z)) : res Z :=
  match d with
  | [] => Err KeyErr
  | (k', v) :: r => if py_list_eqb k (py_ustr_of_string k') then Ok v else py_get_ustr k r
  end.

(* ------------------------------------------------------------------ items of a content sequence *)
Inductive py_pitem :=
| PIBytes (b : list Z)
| PITuple1 (c : list Z)
| PITuple2 (c : list Z) (m : option Z)
| PITuple3 (c : list Z) (m : option Z) (e : option String.string).

Definition py_pitem_is_tuple (it : py_pitem) : bool := match it with PIBytes _ => false | _ => true end.
Definition py_pitem_len (it : py_pitem) : Z :=
  match it with PIBytes b => lenZ b | PITuple1 _ => 1 | PITuple2 _ _ => 2 | PITuple3 _ _ _ => 3 end.
Definition py_pitem_get0 (it : py_pitem) : res (list Z) :=
  match it with PIBytes _ => Err py_unmodelled | PITuple1 c | PITuple2 c _ | PITuple3 c _ _ => Ok c end.
Definition py_pitem_get1 (it : py_pitem) : res (option Z) :=
  match it with PIBytes _ => Err py_unmodelled | PITuple1 _ => Err IndexErr | PITuple2 _ m | PITuple3 _ m _ => Ok m end.
Definition py_pitem_get2 (it : py_pitem) : res (option String.string) :=
  match it with PIBytes _ => Err py_unmodelled | PITuple1 _ | PITuple2 _ _ => Err IndexErr | PITuple3 _ _ e => Ok e end.
Definition py_pitem_as_bytes (it : py_pitem) : res (list Z) :=
  match it with PIBytes b => Ok b | _ => Err py_unmodelled end.

(* ------------------------------------------------------------------ generic facts used by the bridge proofs *)
Lemma py_del_item_last {A} (l : list A) : l <> [] -> py_del_item l (-1) = Ok (removelast l).
Proof.
  intros Hne. unfold py_del_item, py_norm_index, lenZ.
  assert (Hlen : (0 < length l)%nat) by (destruct l; [congruence|cbn; lia]).
  replace (-1 <? 0) with true by reflexivity.
  destruct ((0 <=? -1 + Z.of_nat (length l)) && (-1 + Z.of_nat (length l) <? Z.of_nat (length l))) eqn:E.
  2:{ apply andb_false_iff in E. destruct E as [E|E]; [apply Z.leb_gt in E|apply Z.ltb_ge in E]; lia. }
  cbn [bind]. f_equal.
  replace (Z.to_nat (-1 + Z.of_nat (length l))) with (length l - 1)%nat by lia.
  rewrite (skipn_all2 l) by lia. rewrite app_nil_r.
  clear E Hlen. induction l as [|x r IH]; [congruence|].
  destruct r as [|y r']; [reflexivity|].
  cbn [length]. replace (S (S (length r')) - 1)%nat with (S (length (y :: r') - 1)) by (cbn [length]; lia).
  cbn [firstn]. rewrite IH by congruence. reflexivity.
Qed.

Lemma py_index_last {A} (l : list A) (x : A) : py_index (l ++ [x]) (-1) = Ok x.
Proof.
  unfold py_index, nthZ. replace (-1 <? 0) with true by reflexivity. rewrite app_length. cbn [length].
  destruct (-1 + Z.of_nat (length l + 1) <? 0) eqn:E; [apply Z.ltb_lt in E; lia|].
  replace (Z.to_nat (-1 + Z.of_nat (length l + 1))) with (length l + 0)%nat by lia.
  rewrite nth_error_app2 by lia. replace (length l + 0 - length l)%nat with O by lia. reflexivity.
Qed.

Lemma py_reduce_xor_app_one (l : list Z) (x : Z) : l <> [] ->
  py_reduce_xor (l ++ [x]) = do y <- py_reduce_xor l; Ok (Z.lxor y x).
Proof.
  intros Hne. destruct l as [|a r]; [congruence|]. cbn [py_reduce_xor app bind]. now rewrite fold_left_app.
Qed.

Lemma py_ceil_truediv_spec a b : 0 <= a < 4503599627370496 -> 0 < b < 4503599627370496 ->
  py_ceil_truediv a b = Ok ((a + b - 1) / b).
Proof.
  intros Ha Hb. unfold py_ceil_truediv.
  replace ((0 <=? a) && (a <? 4503599627370496) && (0 <? b) && (b <? 4503599627370496)) with true.
  2:{ symmetry. rewrite !andb_true_iff. repeat split; [apply Z.leb_le|apply Z.ltb_lt|apply Z.ltb_lt|apply Z.ltb_lt]; lia. }
  f_equal.
  assert (Hq : a + b - 1 = b * ((a + b - 1) / b) + (a + b - 1) mod b) by (apply Z.div_mod; lia).
  assert (Hr : 0 <= (a + b - 1) mod b < b) by (apply Z.mod_pos_bound; lia).
  assert (Hq2 : - a = b * ((- a) / b) + (- a) mod b) by (apply Z.div_mod; lia).
  assert (Hr2 : 0 <= (- a) mod b < b) by (apply Z.mod_pos_bound; lia).
  nia.
Qed.

(* ------------------------------------------------------------------ sanity check of py_ceil_truediv (evaluated by the kernel) *)
(* the float computation CPython performs: the quotient of the two ints as binary64 (both are below 2^53, so their
   conversion is exact and IEEE division gives the correctly rounded quotient), then its ceiling *)
Definition py_ceil_float (a b : Z) : res Z :=
  let q := PrimFloat.div (PySemExt.py_float_of_Z a) (PySemExt.py_float_of_Z b) in
  do t <- PySemExt.py_int_of_float q;
  Ok (if PrimFloat.ltb (PySemExt.py_float_of_Z t) q then t + 1 else t).

Example ceil_truediv_examples :
  forallb (fun ab => match py_ceil_truediv (fst ab) (snd ab), py_ceil_float (fst ab) (snd ab) with
                     | Ok x, Ok y => x =? y | _, _ => false end)
    [(0, 5); (1, 5); (5, 5); (6, 5); (152, 152); (153, 152); (4503599627370495, 1); (4503599627370495, 2);
     (4503599627370495, 4503599627370494); (4503599627370494, 4503599627370495); (1, 4503599627370495);
     (4503599627370495, 67108865); (4503599627303937, 67108864); (4503599560261633, 67108863); (4503599627370495, 3);
     (3002399751580331, 1000799917193443); (3002399751580330, 1000799917193443); (23648, 23647); (2956 * 8 + 1, 2956 * 8)]
  = true.
Proof. vm_compute. reflexivity. Qed.
