(* PySemIO: the additions to Base/PySem.v that the translated serializers of segno/writers.py need
   (build/gen/SrcWrCommon.v, SrcWrText.v, SrcWrNetpbm.v, written by gen/translate_writers.py).

   str / bytes.  A Python `str` is the [list Z] of its code points, a `bytes` / `bytearray` object the [list Z] of its
              items (the conventions of Model/Color.v [str], Model/TextFmt.v, Model/Netpbm.v).  `a + b` is [++],
              `s * n` is [py_repeat], `len` is [lenZ], `sep.join(items)` is [py_join]; a string constant of the source is
              written out as the list of its code points.
   f-strings  `f'..{e}..'` is the concatenation of the constant parts and the formatted values: a str value stands for
              itself, an int is [py_str_int] (decimal digits, '-' for a negative number); the only format
              specification in the fragment is `02x` ([py_fmt_02x]: lower-case hexadecimal, sign-aware zero padding to
              width 2).  `str(x)` is the same conversion.  `'..{0:02x}..'.format( *seq)` reads the items of seq by their
              index (IndexError when seq is too short, as CPython's "Replacement index out of range").
   encode     `s.encode('ascii')`: the same list if every code point is below 128, else UnicodeEncodeError (a
              UnicodeError: [UnicodeErr]).
   streams    The file-like object that `with writable(out, mode) as f:` yields is modelled by the list of everything
              written to it so far, concatenated: [py_stream_new] is the empty stream, `f.write(x)` (also through
              the alias `write = f.write`) is [py_write f x] = [f ++ x].  gen/translate_writers.py turns the `with`
              block into "the function returns the stream": [Ok s] means the function returned normally and the items
              written to `out`, in order, concatenate to s; [Err e] means it raised e (what had been written before
              is not recorded).  It accepts the `with` only while the source of `writers.writable` is literally the
              expected context manager (yield of the file object inside try/finally: no exception is swallowed,
              nothing else is written); a str written to a 'wb' stream or bytes to a 'wt' stream is refused at
              translation time (Python raises TypeError).  Opening / closing the file and the encoding of a text
              stream (the harness does the UTF-8 step) are outside.
   iterators  One-shot iterators (generator calls, generator expressions, zip_longest, enumerate, chain) are the lists
              of their items; the translator checks statically that each of them is consumed at most once.  A call of
              a generator FUNCTION (utils.matrix_iter) is kept as an unevaluated [res (list _)] and bound where it is
              consumed: the code before the first `yield` runs at the first next(), not at the call.
              `zip_longest( *[iter(seq)] * n, fillvalue=c)` (n a literal >= 1) is [py_grouper]: consecutive groups of n
              items, the last one filled up with c.  `reduce(f, seq)` without initial value is [py_reduce]
              (TypeError on an empty sequence).  `enumerate(seq, start=k)` is [py_enumerate_from]. *)
From Coq Require Import ZArith List Bool Lia.
From Segno Require Import Base.PyLite Base.PySem.
Import ListNotations.
Open Scope Z_scope.

(* ------------------------------------------------------------------ streams *)
Definition py_stream_new : list Z := [].
Definition py_write (f x : list Z) : list Z := f ++ x.

(* ------------------------------------------------------------------ str / bytes *)
(* sep.join(items) *)
Fixpoint py_join (sep : list Z) (l : list (list Z)) : list Z :=
  match l with
  | [] => []
  | [x] => x
  | x :: r => x ++ sep ++ py_join sep r
  end.

(* enough iterations for every digit of n in any base >= 2 *)
Definition py_digit_fuel (n : Z) : nat := S (Z.to_nat (Z.log2 n)).

(* digits of n >= 0 in front of acc, most significant first *)
Fixpoint py_dec_digits (fuel : nat) (n : Z) (acc : list Z) : list Z :=
  match fuel with
  | O => acc
  | S f => let acc' := (48 + n mod 10) :: acc in
           if n <? 10 then acc' else py_dec_digits f (n / 10) acc'
  end.
(* str(n), f'{n}' for an int n *)
Definition py_str_int (n : Z) : list Z :=
  if n <? 0 then 45 :: py_dec_digits (py_digit_fuel (- n)) (- n) [] else py_dec_digits (py_digit_fuel n) n [].

Definition py_hex_digit (d : Z) : Z := if d <? 10 then 48 + d else 87 + d.          (* 0-9, a-f *)
Fixpoint py_hex_digits (fuel : nat) (n : Z) (acc : list Z) : list Z :=
  match fuel with
  | O => acc
  | S f => let acc' := py_hex_digit (n mod 16) :: acc in
           if n <? 16 then acc' else py_hex_digits f (n / 16) acc'
  end.
(* format(n, '02x') for an int n: the sign counts for the width *)
Definition py_fmt_02x (n : Z) : list Z :=
  if n <? 0 then 45 :: py_hex_digits (py_digit_fuel (- n)) (- n) []
  else let d := py_hex_digits (py_digit_fuel n) n [] in if lenZ d <? 2 then 48 :: d else d.

(* s.encode('ascii') *)
Definition py_is_ascii (c : Z) : bool := (0 <=? c) && (c <? 128).
Definition py_encode_ascii (s : list Z) : res (list Z) :=
  if forallb py_is_ascii s then Ok s else Err UnicodeErr.

(* ------------------------------------------------------------------ functools / itertools *)
(* functools.reduce(f, seq) without an initial value *)
Definition py_reduce {A} (f : A -> A -> A) (l : list A) : res A :=
  match l with [] => Err TypeErr | a :: r => Ok (fold_left f r a) end.

(* the first n items of l, filled up with `fill` *)
Fixpoint py_take_fill_with (n : nat) (fill : Z) (l : list Z) : list Z :=
  match n with
  | O => []
  | S k => match l with [] => fill :: py_take_fill_with k fill [] | x :: r => x :: py_take_fill_with k fill r end
  end.
Fixpoint py_grouper_fuel (fuel n : nat) (fill : Z) (l : list Z) : list (list Z) :=
  match fuel with
  | O => []
  | S f => match l with
           | [] => []
           | _ => py_take_fill_with n fill l :: py_grouper_fuel f n fill (skipn n l)
           end
  end.
(* zip_longest( *[iter(l)] * n, fillvalue=fill): all n positions draw from ONE iterator, so the tuples are the
   consecutive groups of n items; the round in which the iterator runs dry is filled up, an empty round ends it *)
Definition py_grouper (n fill : Z) (l : list Z) : list (list Z) :=
  if n <=? 0 then [] else py_grouper_fuel (length l) (Z.to_nat n) fill l.

(* enumerate(seq, start) *)
Definition py_enumerate_from {A} (start : Z) (l : list A) : list (Z * A) :=
  combine (zrange start (start + lenZ l)) l.

(* zip(a, b) *)
Definition py_zip2 {A B} (a : list A) (b : list B) : list (A * B) := combine a b.

(* zip_longest( *[it] * 2, fillvalue=F) over ONE iterator `it`: consecutive items are paired; an odd last item is paired
   with the fill value, here [None] *)
Fixpoint py_pairs_fill {A} (l : list A) : list (A * option A) :=
  match l with
  | [] => []
  | [a] => [(a, None)]
  | a :: b :: r => (a, Some b) :: py_pairs_fill r
  end.
(* zip(a, b) where b is a sequence ([Some b]) or the infinite iterator itertools.repeat(c) ([None]); the pairs as [x; y] *)
Definition py_zip_inf (a : list Z) (b : option (list Z)) (c : Z) : list (list Z) :=
  match b with
  | Some b => map (fun p => [fst p; snd p]) (combine a b)
  | None => map (fun x => [x; c]) a
  end.

(* d[k] for a dict literal with distinct tuple-of-int keys *)
Fixpoint py_getL {A} (k : list Z) (d : list (list Z * A)) : res A :=
  match d with
  | [] => Err KeyErr
  | (k', v) :: r => if py_list_eqb k k' then Ok v else py_getL k r
  end.

(* ------------------------------------------------------------------ colours (arguments of the writers) *)
(* a colour argument as the documentation of the writers types it: a str (name or hex) or a tuple of ints *)
Inductive py_color := PyCStr (s : list Z) | PyCTuple (parts : list Z).
(* truthiness of a colour-or-None: None, '' and () are falsy *)
Definition py_color_truthy (c : option py_color) : bool :=
  match c with
  | None => false
  | Some (PyCStr s) => negb (lenZ s =? 0)
  | Some (PyCTuple t) => negb (lenZ t =? 0)
  end.

(* struct.pack('>nB', *vals) with the format given as bytes: '>' followed by an optional decimal count and 'B'.
   n values in range(256) give those n bytes; a wrong number of values or a value out of range is struct.error, which
   PyLite.exn does not have: [TypeErr] stands in for it (the convention of Model/Netpbm.v pack_B). *)
Definition py_struct_error : exn := TypeErr.
Fixpoint py_fmt_count (l : list Z) (acc : Z) : option Z :=
  match l with
  | [66] => Some acc                                                        (* 'B' *)
  | d :: r => if (48 <=? d) && (d <=? 57) then py_fmt_count r (10 * acc + (d - 48)) else None
  | [] => None
  end.
Definition py_pack_B (fmt vals : list Z) : res (list Z) :=
  match fmt with
  | 62 :: r =>                                                              (* '>' *)
      match (match r with [66] => Some 1 | _ => py_fmt_count r 0 end) with
      | Some n => if (lenZ vals =? n) && forallb is_byte vals then Ok vals else Err py_struct_error
      | None => Err py_struct_error
      end
  | _ => Err py_struct_error
  end.

(* ------------------------------------------------------------------ checked against CPython 3 on examples *)
Example ex_str_int : (py_str_int 0, py_str_int 7, py_str_int 10, py_str_int 1234, py_str_int (-56))
                     = ([48], [55], [49; 48], [49; 50; 51; 52], [45; 53; 54]).
Proof. reflexivity. Qed.
Example ex_fmt_02x : (py_fmt_02x 0, py_fmt_02x 10, py_fmt_02x 255, py_fmt_02x 256, py_fmt_02x (-1), py_fmt_02x (-255))
                     = ([48; 48], [48; 97], [102; 102], [49; 48; 48], [45; 49], [45; 102; 102]).
Proof. reflexivity. Qed.
Example ex_join : (py_join [44; 32] [[97]; [98; 99]; []], py_join [44] [], py_join [] [[97]; [98]])
                  = ([97; 44; 32; 98; 99; 44; 32], [], [97; 98]).
Proof. reflexivity. Qed.
(* list(zip_longest( *[iter([1,2,3,4,5])] * 2, fillvalue=9)) == [(1, 2), (3, 4), (5, 9)];  of [1,2,3,4]: [(1, 2), (3, 4)] *)
Example ex_grouper : (py_grouper 2 9 [1; 2; 3; 4; 5], py_grouper 2 9 [1; 2; 3; 4], py_grouper 8 0 [], py_grouper 3 0 [7])
                     = ([[1; 2]; [3; 4]; [5; 9]], [[1; 2]; [3; 4]], [], [[7; 0; 0]]).
Proof. reflexivity. Qed.
Example ex_reduce : (py_reduce (fun x y => Z.shiftl x 1 + y) [1; 0; 1; 1], py_reduce Z.add [5], py_reduce Z.add [])
                    = (Ok 11, Ok 5, Err TypeErr).
Proof. reflexivity. Qed.
Example ex_enumerate : py_enumerate_from 1 [10; 20; 30] = [(1, 10); (2, 20); (3, 30)].
Proof. reflexivity. Qed.
Example ex_encode : (py_encode_ascii [80; 52; 10], py_encode_ascii [9600]) = (Ok [80; 52; 10], Err UnicodeErr).
Proof. reflexivity. Qed.
(* list(zip_longest( *[iter('abc')] * 2, fillvalue=None)) == [('a', 'b'), ('c', None)];  list(zip([1, 2], repeat(7))) == [(1, 7), (2, 7)] *)
Example ex_pairs : (py_pairs_fill [1; 2; 3], py_pairs_fill [1; 2], py_zip_inf [1; 2] None 7, py_zip_inf [1; 2; 3] (Some [5; 6]) 7)
                   = ([(1, Some 2); (3, None)], [(1, Some 2)], [[1; 7]; [2; 7]], [[1; 5]; [2; 6]]).
Proof. reflexivity. Qed.
(* pack(b'>B', 1) == b'\x01'; pack(b'>2B', 0, 255); pack(b'>3B', 1, 2) and pack(b'>B', 256) raise struct.error *)
Example ex_pack : (py_pack_B [62; 66] [1], py_pack_B [62; 50; 66] [0; 255], py_pack_B [62; 51; 66] [1; 2],
                   py_pack_B [62; 66] [256], py_pack_B [62; 52; 66] [1; 2; 3; 4])
                  = (Ok [1], Ok [0; 255], Err TypeErr, Err TypeErr, Ok [1; 2; 3; 4]).
Proof. reflexivity. Qed.

(* ------------------------------------------------------------------ generic facts used by the bridge proofs *)
Lemma py_write_nil_l x : py_write [] x = x.
Proof. reflexivity. Qed.

(* a loop that only writes: body x f = (do l <- g x; f ++ l) *)
Lemma py_for_emit {X} (xs : list X) (body : X -> list Z -> res (ctl void (list Z))) (g : X -> res (list Z)) :
  (forall x acc, In x xs -> body x acc = do l <- g x; Ok (CNext (acc ++ l))) ->
  forall acc, py_for xs body acc = do ls <- py_seq_res (map g xs); Ok (inr (acc ++ concat ls)).
Proof.
  induction xs as [|x r IH]; intros Hb acc; cbn [py_for map py_seq_res bind concat].
  - now rewrite app_nil_r.
  - rewrite (Hb x acc (or_introl eq_refl)).
    destruct (g x) as [l|e]; cbn [bind]; [|reflexivity].
    rewrite IH by (intros y a Hy; apply Hb; now right).
    destruct (py_seq_res (map g r)) as [ls|e]; cbn [bind concat]; [|reflexivity].
    now rewrite app_assoc.
Qed.
