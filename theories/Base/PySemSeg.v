(* PySemSeg: the additions to Base/PySem.v that the translated make_segment / data_to_bytes / find_mode / is_kanji /
   is_alphanumeric / get_mode_name of segno/encoder.py need (build/gen/SrcMode.v, SrcSegMake.v, written by
   gen/translate_seg.py).

   bytes.     A Python `bytes` object is a [list Z] whose items are in range(256) (typing: the translated functions are
              stated for such lists; nothing here checks it).  Indexing, slicing and `len` are those of PySem
              (py_index, py_slice, lenZ); iteration yields the items.
   int(b)     for b : bytes follows CPython's PyLong_FromString with base 10: optional surrounding ASCII whitespace, an
              optional sign, decimal digits with single underscores between digits; anything else is ValueError.
              (Exact while the number of digits stays below sys.int_max_str_digits = 4300; the callers pass slices of at
              most three bytes.)
   b.find(x)  x an int: ValueError unless x is in range(256), else the lowest index of the byte or -1;
              x : bytes: PySem.py_find from 0.
   b.isdigit  non-empty and all items ASCII digits.
   iter/next  an iterator over a sequence is the list of the items not yet delivered; next() delivers the head and
              leaves the tail.  next() on an exhausted iterator raises StopIteration, which PyLite.exn does not
              have: [py_stop_iteration] (= TypeErr) stands in for it (the same convention as for UnboundLocalError in
              gen/translate.py).  The bridge theorems show the translated functions never reach it.
   re         `P.match(data)` for a compiled bytes pattern P whose parse tree is  ^? [c1 c2 ...]+ \Z  (gen/translate_seg.py
              reads the tree of the compiled pattern object with re._parser and accepts nothing else) has a match iff
              data is non-empty and every item is one of the class members; only the truthiness of the result is used.
   a or b     on an optional string and a string: b if a is None or empty, else a. *)
From Coq Require Import String.
From Coq Require Import ZArith List Bool Lia.
From Segno Require Import Base.PyLite Base.PySem.
Import ListNotations.
Open Scope Z_scope.

(* ------------------------------------------------------------------ bytes *)
Definition py_is_ascii_digit (b : Z) : bool := (48 <=? b) && (b <=? 57).
Definition py_bytes_isdigit (l : list Z) : bool := negb (lenZ l =? 0) && forallb py_is_ascii_digit l.

(* Py_ISSPACE: space, \t \n \v \f \r *)
Definition py_is_ascii_space (b : Z) : bool := (b =? 32) || ((9 <=? b) && (b <=? 13)).
Fixpoint py_drop_space (l : list Z) : list Z :=
  match l with
  | b :: r => if py_is_ascii_space b then py_drop_space r else l
  | [] => []
  end.
(* digits, single underscores between digits, then optional trailing whitespace up to the end *)
Fixpoint py_int_body (l : list Z) (acc : Z) (last_digit : bool) : option Z :=
  match l with
  | [] => if last_digit then Some acc else None
  | b :: r =>
      if py_is_ascii_digit b then py_int_body r (10 * acc + (b - 48)) true
      else if b =? 95 then (if last_digit then py_int_body r acc false else None)
      else if py_is_ascii_space b then (if last_digit && forallb py_is_ascii_space r then Some acc else None)
      else None
  end.
Definition py_int_bytes (l : list Z) : res Z :=
  let l1 := py_drop_space l in
  let signed := match l1 with
                | 43 :: r => option_map (fun v => v) (py_int_body r 0 false)
                | 45 :: r => option_map Z.opp (py_int_body r 0 false)
                | _ => py_int_body l1 0 false
                end in
  match signed with Some v => Ok v | None => Err ValueError end.

Definition py_bytes_find_int (l : list Z) (x : Z) : res Z :=
  if is_byte x then Ok (py_find l [x] 0) else Err ValueError.
Definition py_bytes_find (l sub : list Z) : Z := py_find l sub 0.

(* ------------------------------------------------------------------ iterators *)
Definition py_stop_iteration : exn := TypeErr.     (* stand-in: PyLite.exn has no StopIteration *)
Definition py_iter {A} (l : list A) : list A := l.
Definition py_next {A} (it : list A) : res (A * list A) :=
  match it with [] => Err py_stop_iteration | x :: r => Ok (x, r) end.

(* ------------------------------------------------------------------ re: ^[class]+\Z *)
Definition py_re_class_plus (cls data : list Z) : bool := negb (lenZ data =? 0) && forallb (fun b => memZ b cls) data.

(* ------------------------------------------------------------------ a or b *)
Definition py_str_or (a : option String.string) (b : String.string) : String.string :=
  match a with Some s => if String.eqb s EmptyString then b else s | None => b end.

(* ------------------------------------------------------------------ generic facts used by the bridge proofs *)
Lemma py_int_body_digits : forall l acc,
  forallb py_is_ascii_digit l = true ->
  py_int_body l acc true = Some (fold_left (fun a d => 10 * a + (d - 48)) l acc).
Proof.
  induction l as [|b r IH]; intros acc Hd; cbn [py_int_body fold_left]; [reflexivity|].
  cbn [forallb] in Hd. apply andb_true_iff in Hd. destruct Hd as [Hb Hr]. rewrite Hb. apply IH; auto.
Qed.

Lemma py_int_bytes_digits l :
  l <> [] -> forallb py_is_ascii_digit l = true ->
  py_int_bytes l = Ok (fold_left (fun a d => 10 * a + (d - 48)) l 0).
Proof.
  intros Hne Hd. destruct l as [|b r]; [congruence|]. cbn [forallb] in Hd. apply andb_true_iff in Hd.
  destruct Hd as [Hb Hr]. unfold py_int_bytes. cbn [py_drop_space].
  assert (Hsp : py_is_ascii_space b = false).
  { unfold py_is_ascii_digit in Hb. unfold py_is_ascii_space. apply andb_true_iff in Hb. destruct Hb as [H1 H2].
    apply Z.leb_le in H1. apply Z.leb_le in H2.
    destruct (b =? 32) eqn:E1; [apply Z.eqb_eq in E1; lia|].
    destruct (9 <=? b) eqn:E2; destruct (b <=? 13) eqn:E3; try reflexivity. apply Z.leb_le in E3. lia. }
  rewrite Hsp.
  assert (Hbody : py_int_body (b :: r) 0 false = Some (fold_left (fun a d => 10 * a + (d - 48)) (b :: r) 0)).
  { cbn [py_int_body fold_left]. rewrite Hb. apply py_int_body_digits; auto. }
  assert (H43 : b <> 43 /\ b <> 45).
  { unfold py_is_ascii_digit in Hb. apply andb_true_iff in Hb. destruct Hb as [H1 H2]. apply Z.leb_le in H1. lia. }
  destruct H43 as [H43 H45].
  assert (Hsel : match b :: r with
                 | 43 :: r0 => option_map (fun v => v) (py_int_body r0 0 false)
                 | 45 :: r0 => option_map Z.opp (py_int_body r0 0 false)
                 | _ => py_int_body (b :: r) 0 false
                 end = py_int_body (b :: r) 0 false).
  { destruct b as [|p|p]; try reflexivity.
    do 6 (destruct p as [p|p|]; try reflexivity); congruence. }
  rewrite Hsel, Hbody. reflexivity.
Qed.

(* range(a, b, step) for a positive step: a, a + step, ... (below b) *)
Lemma py_range3_pos a b step : 0 < step ->
  py_range3 a b step = Ok (py_range_aux (Z.to_nat ((b - a + step - 1) / step)) a step).
Proof.
  intros Hs. unfold py_range3. destruct (step =? 0) eqn:E0; [apply Z.eqb_eq in E0; lia|].
  destruct (0 <? step) eqn:E1; [reflexivity|]. apply Z.ltb_ge in E1. lia.
Qed.
