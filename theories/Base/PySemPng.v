(* PySemPng: the additions to Base/PySem*.v that the translated PNG serializer of segno/writers.py needs
   (build/gen/SrcPng.v, written by gen/translate_png.py): write_png with its nested helpers png_color / chunk / scanline,
   and the wrapper that @colorful puts around it.  Hand-written and trusted like Base/PySem.v (DESIGN.md 11.6 / 11.16).

   bytes      `bytes` / `bytearray` objects are the [list Z] of their items (PySemIO.v).  `a + b` is [++], `b * n` is
              [py_repeat], `x += y` on a bytearray that has no second reference is [x ++ y], `bytearray(b)` of a bytes-like
              object is a copy (the same list).  A variable that holds a bytes object on one path and a list / tuple of ints
              on another (`vertical_border`) is only accepted as an iterable of ints.
   struct     `pack(fmt, v1, ..)` with a literal big-endian format made of the codes B (1 byte), H (2), I and L (4), each with
              an optional repeat count: [py_struct_pack].  Every value must be an int in the range of its code and the number
              of values must be the number of items; otherwise struct.error, which PyLite.exn does not have: [TypeErr]
              stands in for it (the convention of PySemIO.py_pack_B and of Model/Png.v).  gen/translate_png.py refuses any
              other format character at translation time.
   zlib       `zlib.crc32(b)` and `zlib.compress(b, level)` are C code: they are PARAMETERS [ext_crc32 : list Z -> Z] and
              [ext_compress : list Z -> Z -> list Z] of the translated functions (total: zlib.error for a level outside
              -1..9 is not modelled).
   set        `set(xs)` of tuples of ints holds the distinct items of xs; the ORDER in which CPython iterates over it is
              the layout of its hash table, an implementation detail (it is not the order of first occurrence:
              sorted(set([(0, 0, 0, 64), (0, 0, 0, 128)]), key=itemgetter(0, 1, 2)) keeps or swaps the two items depending on
              their hashes).  gen/translate_png.py makes that order a PARAMETER [ext_set_order] of the translated function
              (and accepts a set only as the argument of sorted()); the bridge theorems assume of it only that it lists the
              distinct items, [py_set_items] (first occurrences), in SOME order (a Permutation).
   sorted     `sorted(xs, key=k)` / `xs.sort(key=k, reverse=r)`: the keys of all items are computed first, in order
              (the first exception wins), then the items are sorted by key, stable ([py_sorted_by_key]: insertion sort;
              every stable sort yields the same list).  reverse=True sorts as if every comparison were reversed and
              keeps the original order of items with equal keys.  Keys: `itemgetter(i, j, k)` ([py_itemgetter3]:
              the tuple of the three items, IndexError), compared as tuples ([py_list_ltb]); `len` (ints).
   dict       a dict with int keys is the insertion-ordered [list (Z * V)] with distinct keys (PyLite.getZ is `d[k]`).
              `d.values()` is [map snd], iteration over d is [map fst], `d.update(e)` sets the items of e in order
              ([py_dict_update]: an existing key keeps its position, a new key is appended), `{k: f(v) ..}` over the keys /
              items of a dict keeps the keys.
   next       `next(it)` of a generator expression: the first item; StopIteration for an empty one.  PyLite.exn has no
              StopIteration: [py_stop_iteration] = [AssertErr] stands in for it (the convention of Model/Png.v).
   any        `any(genexp)` whose items may raise: the items are produced one by one, the first true item ends it
              ([py_any_res]).
   floats     `n // x` for an int n and a float x ([py_float_floordiv], after the conversion of n): CPython's
              float_floor_div -- mod = fmod(vx, wx); div = (vx - mod) / wx; div -= 1.0 if mod has the other sign than wx;
              floor(div), plus 1.0 if div - floor(div) > 0.5.  fmod is exact ([py_float_fmod]: computed on the integer
              mantissas), floor is exact ([py_float_floor]); the other operations are the binary64 operations of the
              kernel (PrimFloat), as in PySemExt.v.  A zero divisor (ZeroDivisionError) and non-finite operands give the
              marker [py_unmodelled]. *)
From Coq Require Import ZArith List Bool Lia.
From Coq Require Import PrimFloat Uint63 FloatClass.
From Segno Require Import Base.PyLite Base.PySem Base.PySemExt Base.PySemIO Base.PySemColor.
Import ListNotations.
Open Scope Z_scope.

(* ------------------------------------------------------------------ struct.pack, big-endian, codes B H I L *)
Definition py_struct_code_bytes (c : Z) : option Z :=
  if c =? 66 then Some 1            (* B *)
  else if c =? 72 then Some 2       (* H *)
  else if (c =? 73) || (c =? 76) then Some 4      (* I, L *)
  else None.
(* the byte widths of the items of a format (after '>'): [count]code ... *)
Fixpoint py_struct_items (fmt : list Z) (count : option Z) : option (list Z) :=
  match fmt with
  | [] => match count with None => Some [] | Some _ => None end
  | c :: r =>
      if (48 <=? c) && (c <=? 57) then
        py_struct_items r (Some (10 * (match count with Some n => n | None => 0 end) + (c - 48)))
      else match py_struct_code_bytes c with
           | Some w =>
               match py_struct_items r None with
               | Some t => Some (repeat w (Z.to_nat (match count with Some n => n | None => 1 end)) ++ t)
               | None => None
               end
           | None => None
           end
  end.
(* v as w bytes, most significant first *)
Fixpoint py_be_bytes (w : nat) (v : Z) : list Z :=
  match w with
  | O => []
  | S k => (v / 256 ^ Z.of_nat k) mod 256 :: py_be_bytes k v
  end.
Fixpoint py_struct_pack_items (ws vals : list Z) : res (list Z) :=
  match ws, vals with
  | [], [] => Ok []
  | w :: wr, v :: vr =>
      if (0 <=? v) && (v <? 256 ^ w) then do t <- py_struct_pack_items wr vr; Ok (py_be_bytes (Z.to_nat w) v ++ t)
      else Err py_struct_error
  | _, _ => Err py_struct_error
  end.
Definition py_struct_pack (fmt vals : list Z) : res (list Z) :=
  match fmt with
  | 62 :: r => match py_struct_items r None with
               | Some ws => if lenZ ws =? lenZ vals then py_struct_pack_items ws vals else Err py_struct_error
               | None => Err py_struct_error
               end
  | _ => Err py_struct_error
  end.
(* an argument of pack that is None: "required argument is not an integer" *)
Definition py_struct_int (o : option Z) : res Z := match o with Some v => Ok v | None => Err py_struct_error end.

(* ------------------------------------------------------------------ set, sorted, list.index on tuples of ints *)
Fixpoint py_set_items (l : list (list Z)) : list (list Z) :=
  match l with
  | [] => []
  | x :: r => x :: filter (fun y => negb (py_list_eqb y x)) (py_set_items r)
  end.

(* tuple < tuple *)
Fixpoint py_list_ltb (a b : list Z) : bool :=
  match a, b with
  | [], [] => false
  | [], _ :: _ => true
  | _ :: _, [] => false
  | x :: a', y :: b' => (x <? y) || ((x =? y) && py_list_ltb a' b')
  end.
(* operator.itemgetter(i, j, k)(x) *)
Definition py_itemgetter3 (i j k : Z) (x : list Z) : res (list Z) :=
  do a <- py_index x i; do b <- py_index x j; do c <- py_index x k; Ok [a; b; c].

Fixpoint py_insert_keyed {K A} (ltb : K -> K -> bool) (x : K * A) (l : list (K * A)) : list (K * A) :=
  match l with
  | [] => [x]
  | y :: r => if ltb (fst x) (fst y) then x :: l else y :: py_insert_keyed ltb x r
  end.
Definition py_sort_keyed {K A} (ltb : K -> K -> bool) (l : list (K * A)) : list (K * A) :=
  fold_left (fun acc x => py_insert_keyed ltb x acc) l [].
Definition py_sorted_by_key {K A} (ltb : K -> K -> bool) (key : A -> res K) (l : list A) : res (list A) :=
  do ks <- py_seq_res (map key l); Ok (map snd (py_sort_keyed ltb (combine ks l))).
(* reverse=True *)
Definition py_reversed_ltb {K} (ltb : K -> K -> bool) (a b : K) : bool := ltb b a.
Definition py_len_key {A} (x : list A) : res Z := Ok (lenZ x).

Fixpoint py_index_of_list (x : list Z) (l : list (list Z)) : res Z :=
  match l with
  | [] => Err ValueError
  | y :: r => if py_list_eqb x y then Ok 0 else do k <- py_index_of_list x r; Ok (k + 1)
  end.

(* ------------------------------------------------------------------ dicts with int keys *)
Fixpoint py_dict_set {V} (d : list (Z * V)) (k : Z) (v : V) : list (Z * V) :=
  match d with
  | [] => [(k, v)]
  | (k', v') :: r => if k =? k' then (k', v) :: r else (k', v') :: py_dict_set r k v
  end.
Definition py_dict_update {V} (d e : list (Z * V)) : list (Z * V) :=
  fold_left (fun acc kv => py_dict_set acc (fst kv) (snd kv)) e d.
Definition py_dict_keys {V} (d : list (Z * V)) : list Z := map fst d.
Definition py_dict_values {V} (d : list (Z * V)) : list V := map snd d.
(* _NAME2RGB.values() *)
Definition py_name2rgb_values (tbl : list (list Z * (Z * Z * Z))) : list (list Z) :=
  map (fun e => let '(_, (r, g, b)) := e in [r; g; b]) tbl.

(* ------------------------------------------------------------------ next, any, lazily produced rows *)
Definition py_stop_iteration : exn := AssertErr.
Definition py_next_first {A} (l : list A) : res A :=
  match l with x :: _ => Ok x | [] => Err py_stop_iteration end.
Fixpoint py_any_res (l : list (res bool)) : res bool :=
  match l with
  | [] => Ok false
  | x :: r => do b <- x; if b then Ok true else py_any_res r
  end.

(* ------------------------------------------------------------------ int // float *)
Definition py_float_finite (x : py_float) : bool := negb (py_float_is_nan x || py_float_is_inf x).
(* sign * m * 2^e for 0 <= m < 2^53 (exact whenever the value is representable) *)
Definition py_float_ldexp (neg : bool) (m e : Z) : py_float :=
  let f := PrimFloat.ldshiftexp (py_float_of_Z m) (Uint63.of_Z (e + 2101)) in
  if neg then PrimFloat.opp f else f.
(* C fmod(x, y) for finite x and finite y <> 0: x - n*y with n = trunc(x/y), exact; the sign of x *)
Definition py_float_fmod (x y : py_float) : py_float :=
  let '(mx, ex) := py_float_parts x in
  let '(my, ey) := py_float_parts y in
  let e := Z.min ex ey in
  let X := Z.shiftl mx (ex - e) in
  let Y := Z.shiftl my (ey - e) in
  py_float_ldexp (py_float_sign x) (X mod Y) e.
(* floor(x) for a finite x *)
Definition py_float_floor (x : py_float) : py_float :=
  if PrimFloat.leb 4503599627370496%float (PrimFloat.abs x) then x          (* |x| >= 2^52: integral already *)
  else if PrimFloat.eqb x PrimFloat.zero then x
  else match py_int_of_float x with
       | Ok t => let ft := py_float_of_Z t in if PrimFloat.ltb x ft then py_float_of_Z (t - 1) else ft
       | Err _ => x
       end.
Definition py_float_floordiv (vx wx : py_float) : res py_float :=
  if PrimFloat.eqb wx PrimFloat.zero then Err py_unmodelled            (* ZeroDivisionError *)
  else if negb (py_float_finite vx && py_float_finite wx) then Err py_unmodelled
  else
    let md := py_float_fmod vx wx in
    let div := PrimFloat.div (PrimFloat.sub vx md) wx in
    let div := if negb (PrimFloat.eqb md PrimFloat.zero) && xorb (PrimFloat.ltb wx PrimFloat.zero) (PrimFloat.ltb md PrimFloat.zero)
               then PrimFloat.sub div PrimFloat.one else div in
    if negb (PrimFloat.eqb div PrimFloat.zero) then
      let fl := py_float_floor div in
      Ok (if PrimFloat.ltb 0.5%float (PrimFloat.sub div fl) then PrimFloat.add fl PrimFloat.one else fl)
    else Ok (if py_float_sign (PrimFloat.div vx wx) then PrimFloat.neg_zero else PrimFloat.zero).

(* ------------------------------------------------------------------ checked against CPython 3.12 on examples *)
Set Warnings "-inexact-float".
(* pack(b'>I', 1) == b'\0\0\0\1'; pack(b'>2I5B', 258, 3, 1, 0, 0, 0, 0); pack(b'>LLB', 2834, 2834, 1); pack(b'>1H', 513);
   pack(b'>3B', 1, 2, 3); struct.error for pack(b'>I', -1), pack(b'>I', 2**32), pack(b'>B', 256), pack(b'>3B', 1, 2), pack(b'>H', 65536) *)
Example ex_struct_pack :
  (py_struct_pack [62; 73] [1], py_struct_pack [62; 50; 73; 53; 66] [258; 3; 1; 0; 0; 0; 0],
   py_struct_pack [62; 76; 76; 66] [2834; 2834; 1], py_struct_pack [62; 49; 72] [513], py_struct_pack [62; 51; 66] [1; 2; 3],
   py_struct_pack [62; 73] [4294967295], py_struct_pack [62; 66] [255])
  = (Ok [0; 0; 0; 1], Ok [0; 0; 1; 2; 0; 0; 0; 3; 1; 0; 0; 0; 0], Ok [0; 0; 11; 18; 0; 0; 11; 18; 1], Ok [2; 1], Ok [1; 2; 3],
     Ok [255; 255; 255; 255], Ok [255]).
Proof. vm_compute. reflexivity. Qed.
Example ex_struct_error :
  forallb (fun r => match r with Err TypeErr => true | _ => false end)
    [py_struct_pack [62; 73] [-1]; py_struct_pack [62; 73] [4294967296]; py_struct_pack [62; 66] [256];
     py_struct_pack [62; 51; 66] [1; 2]; py_struct_pack [62; 72] [65536]; py_struct_pack [62; 66] [1; 2];
     py_struct_pack [62; 50] [1; 2]; py_struct_pack [73] [1]] = true.
Proof. vm_compute. reflexivity. Qed.
(* sorted([(2,0,0),(1,5,5,9),(1,5,5),(0,9,9)], key=itemgetter(0,1,2)) == [(0,9,9),(1,5,5,9),(1,5,5),(2,0,0)] (stable);
   l.sort(key=len, reverse=True) of [(1,1,1),(2,2,2,2),(3,3,3),(4,4,4,4)] == [(2,2,2,2),(4,4,4,4),(1,1,1),(3,3,3)];
   sorted([(1, 2)], key=itemgetter(0, 1, 2)) raises IndexError *)
Example ex_sorted :
  (py_sorted_by_key py_list_ltb (py_itemgetter3 0 1 2) [[2; 0; 0]; [1; 5; 5; 9]; [1; 5; 5]; [0; 9; 9]],
   py_sorted_by_key (py_reversed_ltb Z.ltb) py_len_key [[1; 1; 1]; [2; 2; 2; 2]; [3; 3; 3]; [4; 4; 4; 4]],
   py_sorted_by_key py_list_ltb (py_itemgetter3 0 1 2) [[1; 2]])
  = (Ok [[0; 9; 9]; [1; 5; 5; 9]; [1; 5; 5]; [2; 0; 0]], Ok [[2; 2; 2; 2]; [4; 4; 4; 4]; [1; 1; 1]; [3; 3; 3]], Err IndexErr).
Proof. vm_compute. reflexivity. Qed.
(* d = {5: 'a', 7: 'b'}; d.update({7: 'c', 1: 'd'}) -> {5: 'a', 7: 'c', 1: 'd'};  (1, 2) < (1, 2, 0);  (1, 3) > (1, 2, 9) *)
Example ex_dict :
  (py_dict_update [(5, 1); (7, 2)] [(7, 3); (1, 4)], py_list_ltb [1; 2] [1; 2; 0], py_list_ltb [1; 3] [1; 2; 9],
   py_set_items [[1]; [2]; [1]; [3]; [2]], py_index_of_list [2] [[1]; [2]; [2]], py_index_of_list [5] [[1]])
  = ([(5, 1); (7, 3); (1, 4)], true, false, [[1]; [2]; [3]], Ok 1, Err ValueError).
Proof. vm_compute. reflexivity. Qed.
Example ex_any_next :
  (py_any_res [Ok false; Ok true; Err KeyErr], py_any_res [Ok false; Err KeyErr; Ok true], py_any_res [],
   py_next_first [7; 8], py_next_first (@nil Z))
  = (Ok true, Err KeyErr, Ok false, Ok 7, Err AssertErr).
Proof. vm_compute. reflexivity. Qed.
(* 72 // 0.0254 == 2834.0, 300 // 0.0254 == 11811.0, 1 // 0.0254 == 39.0, 0 // 0.0254 == 0.0, -1 // 0.0254 == -40.0,
   127 // 0.0254 == 5000.0, 7.5 // 2.0 == 3.0,
   -7.5 // 2.0 == -4.0, 7.5 // -2.0 == -4.0, 1e300 // 3.0 == 3.3333333333333335e+299, 5 // 0.3 == 16.0, 6 // 0.1 == 59.0 *)
Example ex_floordiv :
  map (fun p => do q <- py_float_floordiv (fst p) (snd p); py_int_of_float q)
      [(72, 0.0254); (300, 0.0254); (1, 0.0254); (0, 0.0254); (-1, 0.0254); (127, 0.0254); (7.5, 2); (-7.5, 2); (7.5, -2);
       (5, 0.3); (6, 0.1); (109092170, 0.0254); (600, 0.0254)]%float
     = map Ok [2834; 11811; 39; 0; -40; 5000; 3; -4; -4; 16; 59; 4294967322; 23622]
  /\ (do q <- py_float_floordiv 1e300%float 3%float; Ok (PrimFloat.eqb q 3.3333333333333335e+299%float)) = Ok true
  /\ py_float_floordiv 1%float 0%float = Err py_unmodelled /\ py_float_floordiv PrimFloat.infinity 2%float = Err py_unmodelled.
Proof. repeat split; vm_compute; reflexivity. Qed.
(* math.fmod(7.5, 2) == 1.5, fmod(-7.5, 2) == -1.5, fmod(1e300, 3) == 0.0, fmod(72, 0.0254) == 0.016400000000002926,
   fmod(0.1, 0.3) == 0.1; math.floor(-0.5) == -1, floor(2.5) == 2, floor(-3.0) == -3 *)
Example ex_fmod_floor :
  forallb (fun p => PrimFloat.eqb (fst p) (snd p))
    [(py_float_fmod 7.5 2, 1.5); (py_float_fmod (-7.5) 2, -1.5); (py_float_fmod 1e300 3, 0); (py_float_fmod 72 0.0254, 0.016400000000002926);
     (py_float_fmod 0.1 0.3, 0.1); (py_float_floor (-0.5), -1); (py_float_floor 2.5, 2); (py_float_floor (-3), -3);
     (py_float_floor 1e300, 1e300); (py_float_floor 0.3, 0)]%float = true.
Proof. vm_compute. reflexivity. Qed.

(* ------------------------------------------------------------------ generic facts used by the bridge proofs *)
Lemma py_any_res_map_ok {X} (f : X -> res bool) (g : X -> bool) (xs : list X) :
  (forall x, In x xs -> f x = Ok (g x)) -> py_any_res (map f xs) = Ok (existsb g xs).
Proof.
  induction xs as [|x r IH]; intros Hf; cbn [map py_any_res existsb]; [reflexivity|].
  rewrite (Hf x (or_introl eq_refl)). cbn [bind]. destruct (g x); [reflexivity|].
  apply IH. intros y Hy. apply Hf. now right.
Qed.
