(* PySemExt: Python semantics used by the translated mask evaluation (build/gen/SrcMaskScores.v, produced by
   gen/translate.py): `while` loops, bytearray.find, bytearray(n), and IEEE-754 binary64 float arithmetic.
   Hand-written and trusted like Base/PySem.v (DESIGN.md 11.6 / 11.7.2).

   Floats are Coq's primitive floats (PrimFloat): the kernel evaluates them with the machine's binary64 operations,
   round-to-nearest-even, which is what CPython's float uses on this platform.  No axiom of Floats/FloatAxioms is
   used: facts about float computations are obtained by evaluation (vm_compute) over finite ranges only. *)
From Coq Require Import ZArith List Bool.
From Coq Require Import PrimFloat Uint63.
From Segno Require Import Base.PyLite Base.PySem.
Import ListNotations.
Open Scope Z_scope.

(* ------------------------------------------------------------------ outcomes outside the model *)
(* PyLite.exn lists the exceptions the model knows.  Three kinds of outcome are outside it: a `while` loop that does
   not stop (below: that runs out of fuel), and ZeroDivisionError / OverflowError of float arithmetic.  They are all
   reported as [Err py_unmodelled].  Consequences, enforced by gen/translate.py:
   * a statement `src_f fuel args = Ok v` is exact: the run of the Python code on these arguments ends with v (the
     marker was not produced, so no loop ran out of fuel and no unmodelled exception was raised);
   * a statement `src_f fuel args = Err e` means "raises e" only if e <> py_unmodelled;
   * the translator refuses such operations (and calls of functions containing them) inside the body of a `try`, so
     that no handler of the translated code can ever catch the marker. *)
Definition py_unmodelled : exn := UnicodeErr.

(* `while c: BODY` with the tuple [s] of the variables BODY rebinds: [step s] evaluates c and then BODY; it ends in
   [CBrk s] when c is false or on `break`, in [CNext s'] at the end of BODY / on `continue`, in [CRet a] on `return a`.
   [fuel] bounds the number of iterations; every translated function that contains a `while` loop (or calls such a
   function) takes it as its first parameter [fuel'], and the bridge theorems hold for every sufficiently large fuel. *)
Fixpoint py_while {A S : Type} (fuel : nat) (step : S -> res (ctl A S)) (s : S) : res (A + S) :=
  match fuel with
  | O => Err py_unmodelled
  | Datatypes.S f =>
      match step s with
      | Err e => Err e
      | Ok (CRet a) => Ok (inl a)
      | Ok (CBrk s') => Ok (inr s')
      | Ok (CNext s') => py_while f step s'
      end
  end.

(* ------------------------------------------------------------------ bytearray *)
(* bytearray(n) for an int n: n zero bytes; a negative count raises ValueError *)
Definition py_bytearray_zeros (n : Z) : res (list Z) := if n <? 0 then Err ValueError else Ok (repeat 0 (Z.to_nat n)).

(* seq.find(sub, start) for bytes-like seq and sub: the lowest index >= start where sub occurs, else -1.  A negative
   start counts from the end (clipped at 0); a start beyond the end gives -1, also for the empty pattern (CPython
   find_internal: ADJUST_INDICES, then `end - start < len(sub)` -> -1). *)
Definition py_bytes_find (l p : list Z) (start : Z) : Z :=
  let s := if start <? 0 then Z.max 0 (start + lenZ l) else start in
  if lenZ l <? s + lenZ p then -1 else py_find_suffix p (skipn (Z.to_nat s) l) s.

(* ------------------------------------------------------------------ float *)
Definition py_float : Set := PrimFloat.float.

(* int -> float, exact below 2^53 and correctly rounded below 2^63 (of_uint63); only used by the translator for
   literals of that size *)
Definition py_float_of_Z (z : Z) : py_float :=
  if z <? 0 then PrimFloat.opp (PrimFloat.of_uint63 (Uint63.of_Z (- z))) else PrimFloat.of_uint63 (Uint63.of_Z z).
(* float(n) / an int operand of a float operation: larger ints are outside the model (their conversion rounds, and
   raises OverflowError from about 1.8e308 on) *)
Definition py_float_of_int (z : Z) : res py_float :=
  if Z.abs z <? 9223372036854775808 then Ok (py_float_of_Z z) else Err py_unmodelled.

Definition py_float_add (a b : py_float) : py_float := PrimFloat.add a b.
Definition py_float_sub (a b : py_float) : py_float := PrimFloat.sub a b.
Definition py_float_mul (a b : py_float) : py_float := PrimFloat.mul a b.
Definition py_float_neg (a : py_float) : py_float := PrimFloat.opp a.
Definition py_float_abs (a : py_float) : py_float := PrimFloat.abs a.
(* a / b: ZeroDivisionError (not modelled) for b = 0.0 or -0.0 *)
Definition py_float_div (a b : py_float) : res py_float :=
  if PrimFloat.eqb b PrimFloat.zero then Err py_unmodelled else Ok (PrimFloat.div a b).

(* int(x): truncation toward zero.  x = m * 2^(e - shift) with m in [0.5, 1) (frshiftexp) and m = mant * 2^-53
   (normfr_mantissa), hence |x| = mant * 2^(e - shift - 53).  nan -> ValueError, infinities -> OverflowError (not
   modelled). *)
Definition py_int_of_float (x : py_float) : res Z :=
  if negb (PrimFloat.eqb x x) then Err ValueError                                  (* nan *)
  else if PrimFloat.eqb (PrimFloat.abs x) PrimFloat.infinity then Err py_unmodelled   (* +-inf *)
  else
    let a := PrimFloat.abs x in
    let '(m, e) := PrimFloat.frshiftexp a in
    let mant := Uint63.to_Z (PrimFloat.normfr_mantissa m) in
    let ex := Uint63.to_Z e - 2101 - 53 in      (* 2101 = FloatOps.shift = 2 * emax + prec *)
    let t := if ex <? 0 then Z.shiftr mant (- ex) else Z.shiftl mant ex in
    Ok (if PrimFloat.ltb x PrimFloat.zero then - t else t).

(* ------------------------------------------------------------------ sanity checks (evaluated by the kernel) *)
(* decimal literals below denote the nearest binary64 value, as in Python *)
Set Warnings "-inexact-float".
Example float_of_Z_ex : PrimFloat.eqb (py_float_of_Z 100) 100%float = true /\ PrimFloat.eqb (py_float_of_Z (-7)) (-7)%float = true.
Proof. split; vm_compute; reflexivity. Qed.
Example int_of_float_ex :
  map py_int_of_float [12345.678%float; (-12345.678)%float; 0.99999%float; 0%float; (-0)%float; 4.999999999999999%float;
                       5%float; 1e20%float; 9007199254740993%float; 4.9e-324%float; (-0.5)%float]
  = map Ok [12345; -12345; 0; 0; 0; 4; 5; 100000000000000000000; 9007199254740992; 0; 0].
Proof. vm_compute. reflexivity. Qed.
Example int_of_float_special :
  (py_int_of_float PrimFloat.nan, py_int_of_float PrimFloat.infinity, py_int_of_float PrimFloat.neg_infinity)
  = (Err ValueError, Err py_unmodelled, Err py_unmodelled).
Proof. vm_compute. reflexivity. Qed.
Example float_div_ex :
  (do q <- py_float_div (py_float_of_Z 1) (py_float_of_Z 3); Ok (PrimFloat.eqb q 0.3333333333333333%float)) = Ok true
  /\ py_float_div (py_float_of_Z 1) (py_float_neg (py_float_of_Z 0)) = Err py_unmodelled.
Proof. split; vm_compute; reflexivity. Qed.
(* the classic rounding cases: the kernel computes what CPython prints *)
Example float_mul_ex :
  PrimFloat.eqb (py_float_mul 0.55%float (py_float_of_Z 100)) 55.00000000000001%float = true
  /\ PrimFloat.eqb (py_float_mul 0.57%float (py_float_of_Z 100)) 56.99999999999999%float = true
  /\ PrimFloat.eqb (py_float_mul 0.35%float (py_float_of_Z 100)) 35%float = true.
Proof. repeat split; vm_compute; reflexivity. Qed.
Example bytes_find_ex :
  map (fun s => py_bytes_find [1; 0; 1; 1; 1; 0; 1; 1; 1; 0; 1] [1; 0; 1; 1; 1; 0; 1] s) [0; 1; 4; 5; -7; -20; 11; 12]
  = [0; 4; 4; -1; 4; 0; -1; -1]
  /\ map (fun s => py_bytes_find [1; 2; 3] [] s) [0; 3; 4; -1] = [0; 3; -1; 2].
Proof. split; vm_compute; reflexivity. Qed.
